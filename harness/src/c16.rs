//! `modgen` stream (C16): the real `Sine`/`Square`/`Fourier` and the wrappers
//! (`Cache`/`Fir`/`RadiationPressure`/boxed) against the Lean model, plus the implementation oracle:
//! length in 2..=65536, periodic at the requested (exact modes) / nearest achievable (nearest mode)
//! frequency, samples within a few levels of an independent `f64` reference waveform, range error
//! iff the waveform leaves 0..=255 and clamping was not requested, wrappers preserve length and
//! configuration, `Cache` returns the same result on every use, the device plays what `calc` returned.
#![allow(unused_must_use)]
use crate::common::*;
use crate::dev::*;
use autd3::modulation::sampling_mode::{Nearest, SamplingMode};
use autd3::modulation::{Cache, Custom, Fir, Fourier, FourierOption, RadiationPressure, Sine, SineOption, Square, SquareOption};
use autd3::prelude::*;
use autd3_core::modulation::{Modulation, ModulationError};
use autd3_driver::datagram::IntoBoxedModulation;
use autd3_firmware_emulator::CPUEmulator;
use std::num::NonZeroU16;
use std::rc::Rc;

const FS: u64 = 40000;

#[derive(Clone, Copy, PartialEq, Debug)]
enum ModeSpec {
    E(u32),
    F(u32),
    N(u32),
}
impl ModeSpec {
    fn tok(&self) -> String {
        match self {
            ModeSpec::E(f) => format!("E{f}"),
            ModeSpec::F(b) => format!("F{b:08x}"),
            ModeSpec::N(b) => format!("N{b:08x}"),
        }
    }
    fn mode(&self) -> SamplingMode {
        match *self {
            ModeSpec::E(f) => (f * Hz).into(),
            ModeSpec::F(b) => (f32::from_bits(b) * Hz).into(),
            ModeSpec::N(b) => Nearest(f32::from_bits(b) * Hz).into(),
        }
    }
}

#[derive(Clone, Copy, PartialEq, Debug)]
enum CfgSpec {
    Div(u16),
    Bad,
}
impl CfgSpec {
    fn tok(&self) -> String {
        match self {
            CfgSpec::Div(d) => format!("d{d}"),
            CfgSpec::Bad => "x".into(),
        }
    }
    fn cfg(&self) -> SamplingConfig {
        match *self {
            CfgSpec::Div(d) => SamplingConfig::Division(NonZeroU16::new(d).unwrap()),
            // 40000 / 39999 is not an integer: `division()` fails
            CfgSpec::Bad => SamplingConfig::Freq(39999. * Hz),
        }
    }
    fn div(&self) -> Option<u64> {
        match *self {
            CfgSpec::Div(d) => Some(d as u64),
            CfgSpec::Bad => None,
        }
    }
}

fn cfg_name(c: SamplingConfig) -> String {
    match c.division() {
        Ok(d) => format!("cfg={d}"),
        Err(_) => "cfg=x".into(),
    }
}

fn err_kind(e: &ModulationError) -> String {
    let m = e.to_string();
    let k = if m.contains("Nyquist") {
        "nyquist"
    } else if m.contains("must not be zero") {
        "zero"
    } else if m.contains("valid positive") {
        "negative"
    } else if m.contains("cannot be output") {
        "no-exact"
    } else if m.contains("must be valid value") {
        "nan"
    } else if m.contains("duty must be") {
        "duty"
    } else if m.contains("is out of range [") {
        "range"
    } else if m.contains("must not be empty") {
        "empty"
    } else if m.contains("same sampling configuration") {
        "cfg-mismatch"
    } else if m.contains("buffer size") {
        "size"
    } else if m.starts_with("Sampling") {
        "config"
    } else {
        return format!("err:other({})", m.replace(' ', "_"));
    };
    format!("err:{k}")
}

type Res = Result<Result<Vec<u8>, ModulationError>, String>;

fn res_name(r: &Res) -> String {
    match r {
        Ok(Ok(b)) => format!("len={}", b.len()),
        Ok(Err(e)) => err_kind(e),
        Err(_) => "panic".into(),
    }
}

/// exact value of a finite f32 as (mantissa, exponent): m * 2^e
fn f32_parts(x: f32) -> Option<(i128, i32)> {
    if !x.is_finite() {
        return None;
    }
    let b = x.to_bits();
    let s = if b >> 31 == 1 { -1i128 } else { 1 };
    let ex = ((b >> 23) & 0xff) as i32;
    let man = (b & 0x7fffff) as i128;
    Some(if ex == 0 { (s * man, -149) } else { (s * (man + (1 << 23)), ex - 150) })
}

fn gcd(a: u64, b: u64) -> u64 {
    if b == 0 { a } else { gcd(b, a % b) }
}

struct Ctx {
    out: Out,
    repaired_len: bool,
    /// one actual op line with its answer per op kind, for the evidence file
    kind_samples: Vec<String>,
    kinds_seen: std::collections::HashSet<String>,
}
impl Ctx {
    fn line(&mut self, op: &str, ans: &str) {
        self.out.line(op, ans);
        let kind = op.split(' ').next().unwrap_or("").to_string();
        // take a successful, not too long line of each kind
        if !ans.contains("err:") && op.len() < 400 && self.kinds_seen.insert(kind) {
            self.kind_samples.push(format!("{op} → {ans}"));
        }
    }
}

#[derive(Clone, Copy)]
struct SineOpt {
    intensity: u8,
    offset: u8,
    phase: u32,
    clamp: bool,
}
impl Default for SineOpt {
    fn default() -> Self {
        SineOpt { intensity: 255, offset: 128, phase: 0, clamp: false }
    }
}

/// Nearest-mode generators are built the way users build them: `Sine { freq: f * Hz, option }.into_nearest()`
/// (invisible to the model: the op line is the same `sine N…`; a dropped option or a changed frequency shows as a
/// line difference). `sine_case`/`square_case` additionally compare the result with the directly built
/// `Sine { freq: Nearest(f * Hz), option }`.
fn make_sine(mode: ModeSpec, cfg: CfgSpec, o: SineOpt) -> Sine<SamplingMode> {
    let option = SineOption {
        intensity: o.intensity,
        offset: o.offset,
        phase: f32::from_bits(o.phase) * rad,
        clamp: o.clamp,
        sampling_config: cfg.cfg(),
    };
    match mode {
        ModeSpec::N(b) => {
            let s: Sine<Nearest> = Sine { freq: f32::from_bits(b) * Hz, option }.into_nearest();
            Sine { freq: s.freq.into(), option: s.option }
        }
        _ => Sine { freq: mode.mode(), option },
    }
}

/// what a generator is made of, as far as it can be observed: frequency, option fields, sampling division
fn sine_fp(m: &Sine<SamplingMode>) -> String {
    let o = &m.option;
    format!("freq {:?} intensity {} offset {} phase {:?} clamp {} division {:?}", m.freq, o.intensity, o.offset, o.phase, o.clamp, o.sampling_config.division().ok())
}
fn square_fp(m: &Square<SamplingMode>) -> String {
    let o = &m.option;
    format!("freq {:?} low {} high {} duty {:?} division {:?}", m.freq, o.low, o.high, o.duty, o.sampling_config.division().ok())
}

/// oracle for the `into_nearest()` entry points: same frequency bits and the same option as the direct construction
fn into_nearest_oracle(ctx: &mut Ctx, what: &str, mode: ModeSpec, cfg: CfgSpec, via: String, direct: String, replay: &[String]) {
    if let ModeSpec::N(_) = mode {
        ctx.out.count(&format!("{what}:built-through-into_nearest()"));
        if via != direct {
            ctx.out.violation(
                format!("{what}:into_nearest:{}:{}", mode.tok(), cfg.tok()),
                format!("{what}.into_nearest() is {via}, the directly constructed nearest-mode generator is {direct}"),
                replay.to_vec(),
            );
        }
    }
}

/// cycles elapsed at sample `i` (as a fraction of a turn, reduced exactly) and in total, for the
/// frequency the buffer is supposed to carry
fn cycles(mode: ModeSpec, div: u64, len: usize, i: usize) -> (f64, f64) {
    match mode {
        ModeSpec::E(f) => {
            let num = f as u128 * div as u128 * i as u128;
            (((num % FS as u128) as f64) / FS as f64, num as f64 / FS as f64)
        }
        ModeSpec::F(b) => {
            let (m, e) = f32_parts(f32::from_bits(b)).unwrap_or((0, 0));
            // f * div * i / 40000 turns, reduced exactly when the exponent allows
            let num = m as u128 * div as u128 * i as u128;
            if e >= 0 {
                let v = (num << e.min(60)) % FS as u128;
                (v as f64 / FS as f64, (num as f64) * (2f64).powi(e) / FS as f64)
            } else {
                let den = (FS as u128) << ((-e).min(100) as u32);
                ((num % den) as f64 / den as f64, num as f64 / den as f64)
            }
        }
        ModeSpec::N(_) => {
            let t = (i % len.max(1)) as f64 / len.max(1) as f64;
            (t, i as f64 / len.max(1) as f64)
        }
    }
}

/// property: the buffer, repeated, is periodic at exactly the requested frequency (exact modes)
fn periodic_exact(mode: ModeSpec, div: u64, len: usize) -> Option<String> {
    match mode {
        ModeSpec::E(f) => {
            let x = len as u128 * f as u128 * div as u128;
            if x == 0 || x % FS as u128 != 0 {
                return Some(format!("{len} samples at 40000/{div} Hz do not hold a whole number of periods of {f} Hz"));
            }
            None
        }
        ModeSpec::F(b) => {
            let (m, e) = f32_parts(f32::from_bits(b))?;
            let num = len as i128 * m * div as i128;
            let ok = if num <= 0 {
                false
            } else if e >= 0 {
                ((num as u128) << (e.min(40) as u32)) % FS as u128 == 0
            } else {
                let sh = (-e) as u32;
                if sh >= 120 {
                    false
                } else {
                    let den = 1i128 << sh;
                    num % den == 0 && (num / den) % FS as i128 == 0
                }
            };
            if !ok {
                return Some(format!(
                    "{len} samples at 40000/{div} Hz do not hold a whole number of periods of {:?} Hz",
                    f32::from_bits(b)
                ));
            }
            None
        }
        ModeSpec::N(_) => None,
    }
}

/// property (nearest mode): among the achievable frequencies fs/n, n in 2..=65536, the one of the
/// returned length is the nearest to the request (clamped into the achievable range)
fn nearest_ok(bits: u32, div: u64, len: usize) -> Option<String> {
    let f = f32::from_bits(bits) as f64;
    if f.is_nan() {
        return Some("NaN frequency accepted".into());
    }
    let fs = FS as f64 / div as f64;
    let c = f.clamp(fs / 65536., fs / 2.);
    if !(2..=65536).contains(&len) {
        return None; // reported by the length rule
    }
    let err = |n: usize| (fs / n as f64 - c).abs();
    let mut best = err(len);
    let mut best_n = len;
    for m in [len.wrapping_sub(1), len + 1] {
        if (2..=65536).contains(&m) && err(m) < best {
            best = err(m);
            best_n = m;
        }
    }
    if err(len) > best + c * 1e-6 {
        return Some(format!(
            "nearest mode: request {c} Hz at fs {fs} Hz got {len} samples ({} Hz, off by {}), but {best_n} samples give {} Hz (off by {best})",
            fs / len as f64,
            err(len),
            fs / best_n as f64
        ));
    }
    None
}

fn len_rule(len: usize) -> Option<String> {
    if (2..=65536).contains(&len) { None } else { Some(format!("buffer of {len} samples returned (allowed 2..=65536)")) }
}

/// per-sample tolerance in levels of the reference comparison (1 at 4 kHz; grows with the number of
/// elapsed cycles because the argument is formed in f32)
fn tol_levels(intensity: u8, total_cycles: f64, phase: f64) -> f64 {
    let arg_err = 6.0 * (2f64).powi(-24) * std::f64::consts::TAU * total_cycles + (2f64).powi(-22) * phase.abs();
    1.0 + (intensity as f64 / 2.0 * arg_err).floor()
}

fn sine_case(ctx: &mut Ctx, mode: ModeSpec, cfg: CfgSpec, o: SineOpt, ship: bool, tag: &str) -> Res {
    let m = make_sine(mode, cfg, o);
    let cname = cfg_name(m.sampling_config());
    let r: Res = guarded(|| m.calc());
    let default_opt = o.intensity == 255 && o.offset == 128 && o.phase == 0 && !o.clamp;
    let op = if ship {
        let obs = match &r {
            Ok(Ok(b)) => hex(b),
            Ok(Err(e)) if err_kind(e) == "err:range" => "r".into(),
            _ => "-".into(),
        };
        format!("sine {} {} {} {} {:08x} {} {}", mode.tok(), cfg.tok(), o.intensity, o.offset, o.phase, o.clamp as u8, if obs.is_empty() { "-".into() } else { obs })
    } else {
        assert!(default_opt);
        format!("sinelen {} {}", mode.tok(), cfg.tok())
    };
    let ans = match &r {
        Ok(Ok(b)) => format!("{cname} len={}{}", b.len(), if ship { " within" } else { "" }),
        Ok(Err(e)) => format!("{cname} {}", err_kind(e)),
        Err(_) => format!("{cname} panic"),
    };
    ctx.line(&op, &ans);
    ctx.out.count(&format!("sine:{}:{}", &mode.tok()[..1], res_name(&r).split('=').next().unwrap_or("")));
    let sig = fnv64(format!("sine {} {} {} {} {} {}", mode.tok(), cfg.tok(), o.intensity, o.offset, o.phase, o.clamp).as_bytes());
    ctx.out.case(if matches!(r, Ok(Ok(_))) { Some(sig) } else { None });
    // ---------------- oracle ----------------
    let key = |what: &str| format!("sine:{what}:{}:{}:{tag}", mode.tok(), cfg.tok());
    let replay = vec![op.chars().take(200).collect::<String>()];
    {
        let direct: Sine<SamplingMode> = Sine {
            freq: mode.mode(),
            option: SineOption { intensity: o.intensity, offset: o.offset, phase: f32::from_bits(o.phase) * rad, clamp: o.clamp, sampling_config: cfg.cfg() },
        };
        into_nearest_oracle(ctx, "Sine", mode, cfg, sine_fp(&m), sine_fp(&direct), &replay);
    }
    match (&r, cfg.div()) {
        (Err(p), _) => ctx.out.violation(key("panic"), format!("Sine::calc panicked: {p}"), replay),
        (Ok(Ok(b)), Some(div)) => {
            if cname != format!("cfg={div}") {
                ctx.out.violation(key("cfg"), format!("sampling_config() reports {cname}, constructed with division {div}"), replay.clone());
            }
            let mut bad = len_rule(b.len()).or_else(|| periodic_exact(mode, div, b.len()));
            if bad.is_none() {
                if let ModeSpec::N(bits) = mode {
                    bad = nearest_ok(bits, div, b.len());
                }
            }
            if let Some(w) = bad {
                ctx.out.violation(key("freq"), format!("Sine {} at division {div}: {w}", mode.tok()), replay.clone());
            } else {
                let phase = f32::from_bits(o.phase) as f64;
                if phase.is_finite() && phase.abs() < 1e6 {
                    for (i, &s) in b.iter().enumerate() {
                        let (turn, total) = cycles(mode, div, b.len(), i);
                        let ideal = o.intensity as f64 / 2.0 * (std::f64::consts::TAU * turn + phase).sin() + o.offset as f64;
                        let lvl = ideal.floor().clamp(if o.clamp { 0.0 } else { f64::MIN }, if o.clamp { 255.0 } else { f64::MAX });
                        let t = tol_levels(o.intensity, total, phase);
                        if (s as f64 - lvl).abs() > t {
                            ctx.out.violation(
                                key("value"),
                                format!("Sine {} at division {div}: sample {i} is {s}, ideal waveform gives {ideal:.4} (tolerance {t} levels)", mode.tok()),
                                replay.clone(),
                            );
                            break;
                        }
                    }
                }
            }
        }
        (Ok(Err(e)), Some(div)) if err_kind(e) == "err:range" => {
            // the error is justified only if the ideal waveform (within tolerance) leaves 0..=255
            let phase = f32::from_bits(o.phase) as f64;
            let lo = o.offset as f64 - o.intensity as f64 / 2.0;
            let hi = o.offset as f64 + o.intensity as f64 / 2.0;
            let _ = div;
            if o.clamp {
                ctx.out.violation(key("range"), "range error although clamping was requested".into(), replay);
            } else if phase.is_finite() && lo.floor() >= 0.0 && hi.floor() <= 255.0 {
                ctx.out.violation(key("range"), format!("range error although the waveform stays in [{lo}, {hi}]"), replay);
            }
        }
        _ => {}
    }
    r
}

#[derive(Clone, Copy)]
struct SqOpt {
    low: u8,
    high: u8,
    duty: u32,
}
impl Default for SqOpt {
    fn default() -> Self {
        SqOpt { low: 0, high: 255, duty: 0.5f32.to_bits() }
    }
}

fn make_square(mode: ModeSpec, cfg: CfgSpec, o: SqOpt) -> Square<SamplingMode> {
    let option = SquareOption { low: o.low, high: o.high, duty: f32::from_bits(o.duty), sampling_config: cfg.cfg() };
    match mode {
        ModeSpec::N(b) => {
            let s: Square<Nearest> = Square { freq: f32::from_bits(b) * Hz, option }.into_nearest();
            Square { freq: s.freq.into(), option: s.option }
        }
        _ => Square { freq: mode.mode(), option },
    }
}

fn square_case(ctx: &mut Ctx, mode: ModeSpec, cfg: CfgSpec, o: SqOpt, full: bool, tag: &str) -> Res {
    let m = make_square(mode, cfg, o);
    let cname = cfg_name(m.sampling_config());
    let r: Res = guarded(|| m.calc());
    let duty = f32::from_bits(o.duty);
    let op = if full {
        format!("square {} {} {} {} {:08x}", mode.tok(), cfg.tok(), o.low, o.high, o.duty)
    } else {
        format!("squarelen {} {} {} {} {:08x}", mode.tok(), cfg.tok(), o.low, o.high, o.duty)
    };
    let ans = match &r {
        Ok(Ok(b)) => {
            let nhi = b.iter().filter(|&&v| v == o.high).count();
            if full {
                format!("{cname} len={} hi={nhi} h={:016x}", b.len(), fnv64(b))
            } else {
                format!("{cname} len={} hi={nhi}", b.len())
            }
        }
        Ok(Err(e)) => format!("{cname} {}", err_kind(e)),
        Err(_) => format!("{cname} panic"),
    };
    ctx.line(&op, &ans);
    ctx.out.count(&format!("square:{}:{}", &mode.tok()[..1], res_name(&r).split('=').next().unwrap_or("")));
    let sig = fnv64(format!("square {} {} {} {} {}", mode.tok(), cfg.tok(), o.low, o.high, o.duty).as_bytes());
    ctx.out.case(if matches!(r, Ok(Ok(_))) { Some(sig) } else { None });
    // ---------------- oracle ----------------
    let key = |what: &str| format!("square:{what}:{}:{}:{tag}", mode.tok(), cfg.tok());
    let replay = vec![op.clone()];
    {
        let direct: Square<SamplingMode> = Square {
            freq: mode.mode(),
            option: SquareOption { low: o.low, high: o.high, duty: f32::from_bits(o.duty), sampling_config: cfg.cfg() },
        };
        into_nearest_oracle(ctx, "Square", mode, cfg, square_fp(&m), square_fp(&direct), &replay);
    }
    match (&r, cfg.div()) {
        (Err(p), _) => ctx.out.violation(key("panic"), format!("Square::calc panicked: {p}"), replay),
        (Ok(Ok(b)), Some(div)) => {
            if cname != format!("cfg={div}") {
                ctx.out.violation(key("cfg"), format!("sampling_config() reports {cname}, constructed with division {div}"), replay.clone());
            }
            let mut bad = len_rule(b.len()).or_else(|| periodic_exact(mode, div, b.len()));
            if bad.is_none() {
                if let ModeSpec::N(bits) = mode {
                    bad = nearest_ok(bits, div, b.len());
                }
            }
            if bad.is_none() && b.iter().any(|&v| v != o.low && v != o.high) {
                bad = Some("a sample is neither the low nor the high level".into());
            }
            let mut drift = None;
            if bad.is_none() && o.low != o.high && (0.0..=1.0).contains(&duty) {
                let n = b.len();
                let nhi = b.iter().filter(|&&v| v == o.high).count() as f64;
                // every period truncates its high part: the share of high samples is the duty ratio
                // up to one sample per period
                let periods = match mode {
                    ModeSpec::N(_) => 1.0,
                    _ => cycles(mode, div, n, n).1.round(),
                };
                if (nhi - duty as f64 * n as f64).abs() > periods + 1e-3 * n as f64 {
                    bad = Some(format!("{nhi} of {n} samples are high, duty ratio {duty} over {periods} periods"));
                }
                // ideal square wave: period j starts (rises) at sample j·n/periods; on the sampling grid
                // an edge can be at most one sample away from that
                let rises: Vec<usize> = (0..n).filter(|&i| b[i] == o.high && b[(i + n - 1) % n] == o.low).collect();
                if bad.is_none() && rises.len() as f64 == periods && periods >= 1.0 {
                    for (j, &idx) in rises.iter().enumerate() {
                        let ideal = j as f64 * n as f64 / periods;
                        if (idx as f64 - ideal).abs() > 1.0 + 1e-9 {
                            drift = Some(format!("period {j} of {periods} starts at sample {idx}, the ideal square wave rises at {ideal:.2}"));
                            break;
                        }
                    }
                }
            }
            if let Some(w) = drift {
                // one finding for the whole class (the first witness, from the corpus, names the input)
                ctx.out.count("square:period-drift");
                ctx.out.violation(
                    "square:period-drift".into(),
                    format!("Square {} at division {div} (first witness): the short periods come first and the long ones last instead of being spread evenly, so edges drift away from the ideal wave: {w}", mode.tok()),
                    replay.clone(),
                );
            }
            if let Some(w) = bad {
                ctx.out.violation(key("wave"), format!("Square {} at division {div}: {w}", mode.tok()), replay);
            }
        }
        _ => {}
    }
    r
}

#[derive(Clone)]
struct FourierSpec {
    comps: Vec<(ModeSpec, CfgSpec, u8, u8, u32)>,
    scale: Option<u32>,
    clamp: bool,
    offset: u8,
}

fn fourier_case(ctx: &mut Ctx, sp: &FourierSpec, tag: &str) -> Res {
    let comps: Vec<Sine<SamplingMode>> = sp
        .comps
        .iter()
        .map(|&(m, c, i, o, p)| make_sine(m, c, SineOpt { intensity: i, offset: o, phase: p, clamp: false }))
        .collect();
    let m = Fourier {
        components: comps,
        option: FourierOption { scale_factor: sp.scale.map(f32::from_bits), clamp: sp.clamp, offset: sp.offset },
    };
    let cname = cfg_name(m.sampling_config());
    let r: Res = guarded(|| m.calc());
    let obs = match &r {
        Ok(Ok(b)) if !b.is_empty() => hex(b),
        Ok(Err(e)) if err_kind(e) == "err:range" => "r".into(),
        _ => "-".into(),
    };
    let mut op = format!("fourier {}", sp.comps.len());
    for (m, c, i, o, p) in &sp.comps {
        op.push_str(&format!(" {} {} {i} {o} {p:08x}", m.tok(), c.tok()));
    }
    op.push_str(&format!(" {} {} {} {obs}", sp.scale.map(|s| format!("{s:08x}")).unwrap_or("n".into()), sp.clamp as u8, sp.offset));
    let ans = match &r {
        Ok(Ok(b)) => format!("{cname} len={} within", b.len()),
        Ok(Err(e)) => format!("{cname} {}", err_kind(e)),
        Err(_) => format!("{cname} panic"),
    };
    ctx.line(&op, &ans);
    ctx.out.count(&format!("fourier:{}comp:{}", sp.comps.len(), res_name(&r).split('=').next().unwrap_or("")));
    {
        // which frequency modes meet in one sum (E exact integer, F exact float, N nearest)
        let mut ms: Vec<&str> = sp.comps.iter().map(|c| match c.0 { ModeSpec::E(_) => "E", ModeSpec::F(_) => "F", ModeSpec::N(_) => "N" }).collect();
        ms.sort();
        ms.dedup();
        ctx.out.count(&format!("fourier:modes:{}:{}", if ms.is_empty() { "-".to_string() } else { ms.join("+") }, res_name(&r).split('=').next().unwrap_or("")));
    }
    ctx.out.case(if matches!(r, Ok(Ok(_))) { Some(fnv64(op.split(' ').take(2 + 5 * sp.comps.len() + 3).collect::<Vec<_>>().join(" ").as_bytes())) } else { None });
    // ---------------- oracle ----------------
    let name = sp.comps.iter().map(|c| format!("{}/{}", c.0.tok(), c.1.tok())).collect::<Vec<_>>().join("+");
    let key = |what: &str| format!("fourier:{what}:{name}:{tag}");
    let replay = vec![op.chars().take(300).collect::<String>()];
    match &r {
        Err(p) => ctx.out.violation(key("panic"), format!("Fourier::calc panicked: {p}"), replay),
        Ok(Ok(b)) => {
            let div = sp.comps.first().and_then(|c| c.1.div());
            let mut bad = len_rule(b.len());
            if let (None, Some(div)) = (&bad, div) {
                for (m, ..) in &sp.comps {
                    if let Some(w) = periodic_exact(*m, div, b.len()) {
                        bad = Some(w);
                        break;
                    }
                }
                let sc = sp.scale.map(|s| f32::from_bits(s) as f64).unwrap_or((1f32 / sp.comps.len() as f32) as f64);
                if bad.is_none() && sc.is_finite() && sp.comps.iter().all(|c| f32::from_bits(c.4).is_finite() && f32::from_bits(c.4).abs() < 1e6) {
                    // component lengths for the nearest mode come from the components themselves
                    let lens: Vec<usize> = sp
                        .comps
                        .iter()
                        .map(|&(m, c, ..)| make_sine(m, c, SineOpt::default()).calc().map(|v| v.len()).unwrap_or(1))
                        .collect();
                    for (t, &s) in b.iter().enumerate() {
                        let mut sum = 0f64;
                        let mut tol = 0f64;
                        for (j, &(m, _, i, o, p)) in sp.comps.iter().enumerate() {
                            let (turn, total) = cycles(m, div, lens[j], t);
                            let ph = f32::from_bits(p) as f64;
                            sum += i as f64 / 2.0 * (std::f64::consts::TAU * turn + ph).sin() + o as f64;
                            tol += tol_levels(i, total, ph);
                        }
                        let ideal = sum * sc + sp.offset as f64;
                        let lvl = if sp.clamp { ideal.floor().clamp(0.0, 255.0) } else { ideal.floor() };
                        let tl = 1.0 + (tol * sc.abs()).ceil();
                        if (s as f64 - lvl).abs() > tl {
                            bad = Some(format!("sample {t} is {s}, ideal sum gives {ideal:.4} (tolerance {tl} levels)"));
                            break;
                        }
                    }
                }
            }
            if let Some(w) = bad {
                ctx.out.violation(key("wave"), format!("Fourier [{name}]: {w}"), replay);
            }
        }
        Ok(Err(e)) if err_kind(e) == "err:range" && sp.clamp => {
            ctx.out.violation(key("range"), "range error although clamping was requested".into(), replay);
        }
        _ => {}
    }
    r
}

// ------------------------------------------------------------------------------------------------
// wrappers

#[derive(Clone)]
struct Erased {
    cfg: SamplingConfig,
    f: Rc<dyn Fn() -> Result<Vec<u8>, ModulationError>>,
}
impl std::fmt::Debug for Erased {
    fn fmt(&self, f: &mut std::fmt::Formatter<'_>) -> std::fmt::Result {
        write!(f, "Erased")
    }
}
impl Modulation for Erased {
    fn calc(self) -> Result<Vec<u8>, ModulationError> {
        (self.f)()
    }
    fn sampling_config(&self) -> SamplingConfig {
        self.cfg
    }
}
fn erase<M: Modulation + Clone + 'static>(m: M) -> Erased {
    Erased { cfg: m.sampling_config(), f: Rc::new(move || m.clone().calc()) }
}

#[derive(Clone, Debug)]
enum InnerSpec {
    Custom(CfgSpec, Vec<u8>),
    Square(ModeSpec, CfgSpec, SqOpt),
}
impl std::fmt::Debug for SqOpt {
    fn fmt(&self, f: &mut std::fmt::Formatter<'_>) -> std::fmt::Result {
        write!(f, "{} {} {:08x}", self.low, self.high, self.duty)
    }
}

#[derive(Clone, Debug)]
enum InnerMod {
    C(Custom<SamplingConfig>),
    Q(Square<SamplingMode>),
}
impl Modulation for InnerMod {
    fn calc(self) -> Result<Vec<u8>, ModulationError> {
        match self {
            InnerMod::C(m) => m.calc(),
            InnerMod::Q(m) => m.calc(),
        }
    }
    fn sampling_config(&self) -> SamplingConfig {
        match self {
            InnerMod::C(m) => m.sampling_config(),
            InnerMod::Q(m) => m.sampling_config(),
        }
    }
}

#[derive(Clone, Debug, PartialEq)]
enum LayerSpec {
    Rp,
    Box,
    Cache,
    Fir(Vec<u32>),
}

fn use_str(r: &Res) -> String {
    match r {
        Ok(Ok(b)) if b.len() <= 48 => format!("ok:{}", hex(b)),
        Ok(Ok(b)) => format!("ok:len={}:h={:016x}", b.len(), fnv64(b)),
        Ok(Err(e)) => err_kind(e),
        Err(_) => "panic".into(),
    }
}

/// a target that counts how often it is computed (a `Cache` computes its target once)
#[derive(Clone, Debug)]
struct Counted<M: Modulation + Clone + std::fmt::Debug> {
    m: M,
    calls: std::sync::Arc<std::sync::atomic::AtomicUsize>,
}
impl<M: Modulation + Clone + std::fmt::Debug> Modulation for Counted<M> {
    fn calc(self) -> Result<Vec<u8>, ModulationError> {
        self.calls.fetch_add(1, std::sync::atomic::Ordering::SeqCst);
        self.m.calc()
    }
    fn sampling_config(&self) -> SamplingConfig {
        self.m.sampling_config()
    }
}

/// `inner [fir] [rp]` built from concrete (Send + Sync) types, then `into_boxed()`
fn boxed_chain(imod: &InnerMod, below: &[LayerSpec], calls: &std::sync::Arc<std::sync::atomic::AtomicUsize>) -> autd3_driver::datagram::BoxedModulation {
    let base = Counted { m: imod.clone(), calls: calls.clone() };
    let coef = |c: &Vec<u32>| c.iter().map(|&b| f32::from_bits(b)).collect::<Vec<f32>>();
    match below {
        [] => base.into_boxed(),
        [LayerSpec::Rp] => RadiationPressure::new(base).into_boxed(),
        [LayerSpec::Fir(c)] => Fir::new(base, coef(c)).into_boxed(),
        [LayerSpec::Fir(c), LayerSpec::Rp] => RadiationPressure::new(Fir::new(base, coef(c))).into_boxed(),
        _ => panic!("unsupported boxed shape"),
    }
}

/// explicit use of the public `Cache::init()` / `cache()` (oracle only: the model's `wrap` line is the same, an
/// initialised cache answers every use from its buffer)
#[derive(Clone, Copy, PartialEq, Debug)]
enum InitMode {
    /// only `cache.clone().calc()`
    Never,
    /// `init()` on the outermost cache before the first use
    OuterFirst,
    /// `init()` on every cache, innermost first, before the first use; and once more after the last use
    AllFirst,
    /// `init()` on the outermost cache between the first and the second use
    Between,
}

/// handle on one `Cache` layer of a chain (shares the state with the layer inside the chain)
struct CacheHandle {
    init: Box<dyn Fn() -> Result<(), ModulationError>>,
    buffer: Box<dyn Fn() -> Vec<u8>>,
    /// how often the layer directly below this cache has been computed
    below_calls: Box<dyn Fn() -> usize>,
    /// index of the layer in `layers`
    at: usize,
}

fn wrap_case(ctx: &mut Ctx, inner: &InnerSpec, layers: &[LayerSpec], uses: usize, init: InitMode, tag: &str) {
    use std::sync::atomic::{AtomicUsize, Ordering};
    let (imod, itok, icfg) = match inner {
        InnerSpec::Custom(c, b) => (
            InnerMod::C(Custom { buffer: b.clone(), sampling_config: c.cfg() }),
            format!("C {} {}", c.tok(), if b.is_empty() { "-".to_string() } else { hex(b) }),
            *c,
        ),
        InnerSpec::Square(m, c, o) => (InnerMod::Q(make_square(*m, *c, *o)), format!("Q {} {} {} {} {:08x}", m.tok(), c.tok(), o.low, o.high, o.duty), *c),
    };
    let inner_res: Res = guarded(|| imod.clone().calc());
    // build the chain out of the real wrapper types. `box` needs concrete Send + Sync types below it
    // (`inner [fir] [rp]`), so it is either the outermost layer of a cache-free chain or directly followed by a
    // `cache` (`Cache::new(m.into_boxed())`, the common user shape; BoxedModulation itself is not Clone)
    let mut handles: Vec<CacheHandle> = vec![];
    let counted = |m: Erased| -> (Erased, Rc<std::cell::Cell<usize>>) {
        let n = Rc::new(std::cell::Cell::new(0usize));
        let n2 = n.clone();
        (Erased { cfg: m.cfg, f: Rc::new(move || { n2.set(n2.get() + 1); (m.f)() }) }, n)
    };
    let (mut cur, mut cur_calls) = counted(erase(imod.clone()));
    let mut boxed_top = false;
    let mut k = 0;
    while k < layers.len() {
        match &layers[k] {
            LayerSpec::Rp => cur = erase(RadiationPressure::new(cur)),
            LayerSpec::Fir(c) => cur = erase(Fir::new(cur, c.iter().map(|&b| f32::from_bits(b)).collect::<Vec<f32>>())),
            LayerSpec::Cache => {
                let c = Cache::new(cur);
                let (c1, c2, n) = (c.clone(), c.clone(), cur_calls.clone());
                handles.push(CacheHandle { init: Box::new(move || c1.init()), buffer: Box::new(move || c2.cache().borrow().clone()), below_calls: Box::new(move || n.get()), at: k });
                cur = erase(c);
            }
            LayerSpec::Box => {
                if k == layers.len() - 1 {
                    assert!(!layers.contains(&LayerSpec::Cache));
                    boxed_top = true;
                } else {
                    assert!(layers[k + 1] == LayerSpec::Cache && !layers[..k].contains(&LayerSpec::Cache));
                    let calls = std::sync::Arc::new(AtomicUsize::new(0));
                    let c = Cache::new(boxed_chain(&imod, &layers[..k], &calls));
                    let (c1, c2) = (c.clone(), c.clone());
                    handles.push(CacheHandle { init: Box::new(move || c1.init()), buffer: Box::new(move || c2.cache().borrow().clone()), below_calls: Box::new(move || calls.load(Ordering::SeqCst)), at: k + 1 });
                    cur = erase(c);
                    k += 1; // the cache layer is consumed here
                }
            }
        }
        // count the computations of every layer (the one below a later cache is the interesting one)
        let (c, n) = counted(cur);
        cur = c;
        cur_calls = n;
        k += 1;
    }
    let mut init_results: Vec<(usize, &'static str, Result<Result<(), ModulationError>, String>)> = vec![];
    let (top_cfg, results): (SamplingConfig, Vec<Res>) = if boxed_top {
        // rebuild with concrete, Send + Sync types: inner [rp|fir]* then into_boxed
        let below = &layers[..layers.len() - 1];
        let calls = std::sync::Arc::new(AtomicUsize::new(0));
        let mut cfg = None;
        let rs = (0..uses)
            .map(|_| {
                let b = boxed_chain(&imod, below, &calls);
                cfg = Some(b.sampling_config());
                guarded(|| b.calc())
            })
            .collect();
        (cfg.unwrap(), rs)
    } else {
        let cfg = cur.sampling_config();
        if !handles.is_empty() {
            match init {
                InitMode::OuterFirst => {
                    let h = handles.last().unwrap();
                    init_results.push((h.at, "before the first use", guarded(|| (h.init)())));
                }
                InitMode::AllFirst => {
                    for h in &handles {
                        init_results.push((h.at, "before the first use", guarded(|| (h.init)())));
                    }
                }
                _ => {}
            }
        }
        let mut rs = vec![];
        for u in 0..uses {
            rs.push(guarded(|| cur.clone().calc()));
            if u == 0 && init == InitMode::Between {
                if let Some(h) = handles.last() {
                    init_results.push((h.at, "after the first use", guarded(|| (h.init)())));
                }
            }
        }
        if init == InitMode::AllFirst {
            for h in &handles {
                init_results.push((h.at, "after the last use", guarded(|| (h.init)())));
            }
        }
        (cfg, rs)
    };
    let mut op = format!("wrap {uses} {itok}");
    for l in layers {
        op.push(' ');
        op.push_str(&match l {
            LayerSpec::Rp => "rp".to_string(),
            LayerSpec::Box => "box".to_string(),
            LayerSpec::Cache => "cache".to_string(),
            LayerSpec::Fir(c) => format!("fir:{}", c.iter().map(|b| format!("{b:08x}")).collect::<Vec<_>>().join(",")),
        });
    }
    let ans = format!("{} {}", cfg_name(top_cfg), results.iter().map(use_str).collect::<Vec<_>>().join("|"));
    ctx.line(&op, &ans);
    let lname = layers
        .iter()
        .map(|l| match l {
            LayerSpec::Rp => "rp",
            LayerSpec::Box => "box",
            LayerSpec::Cache => "cache",
            LayerSpec::Fir(_) => "fir",
        })
        .collect::<Vec<_>>()
        .join(">");
    ctx.out.count(&format!("wrap:{lname}:{}", res_name(&results[0]).split('=').next().unwrap_or("")));
    ctx.out.case(if matches!(results[0], Ok(Ok(_))) { Some(fnv64(op.as_bytes())) } else { None });
    // ---------------- oracle ----------------
    let key = |what: &str| format!("wrap:{what}:{lname}:{}:{tag}", itok.chars().take(40).collect::<String>().replace(' ', "_"));
    let replay = vec![op.chars().take(300).collect::<String>()];
    if cfg_name(top_cfg) != cfg_name(icfg.cfg()) {
        ctx.out.violation(key("cfg"), format!("wrapped sampling configuration {} differs from the target's {}", cfg_name(top_cfg), cfg_name(icfg.cfg())), replay.clone());
    }
    for (u, r) in results.iter().enumerate() {
        match (r, &inner_res) {
            (Err(p), _) => ctx.out.violation(key("panic"), format!("use {} panicked: {p}", u + 1), replay.clone()),
            (Ok(Ok(b)), Ok(Ok(ib))) => {
                if b.len() != ib.len() {
                    ctx.out.violation(key("len"), format!("use {}: wrapped length {} differs from the target's {}", u + 1, b.len(), ib.len()), replay.clone());
                }
                if layers.iter().all(|l| matches!(l, LayerSpec::Box | LayerSpec::Cache)) && b != ib {
                    ctx.out.violation(key("data"), format!("use {}: Cache/boxed changed the data", u + 1), replay.clone());
                }
            }
            (Ok(Ok(b)), Ok(Err(e))) => ctx.out.violation(
                key("err"),
                format!("use {}: the target fails ({}) but the wrapper returned Ok with {} samples", u + 1, err_kind(e), b.len()),
                replay.clone(),
            ),
            (Ok(Err(e)), Ok(Ok(_))) => ctx.out.violation(key("err"), format!("use {}: the target succeeds but the wrapper fails ({})", u + 1, err_kind(e)), replay.clone()),
            _ => {}
        }
        if u > 0 && use_str(r) != use_str(&results[0]) {
            ctx.out.violation(key("stable"), format!("use {} returned {} but the first use returned {}", u + 1, use_str(r).chars().take(60).collect::<String>(), use_str(&results[0]).chars().take(60).collect::<String>()), replay.clone());
        }
    }
    // ---------------- oracle: the public `Cache::init()` / `cache()` (explicit initialisation) ----------------
    if !handles.is_empty() {
        ctx.out.count(&format!("wrap:cache-init:{init:?}"));
        let top_is_cache = handles.last().map(|h| h.at) == Some(layers.len() - 1);
        let shown = |r: &Result<Result<(), ModulationError>, String>| match r {
            Ok(Ok(())) => "ok".to_string(),
            Ok(Err(e)) => err_kind(e),
            Err(_) => "panic".to_string(),
        };
        let first = match &results[0] {
            Ok(Ok(_)) => "ok".to_string(),
            Ok(Err(e)) => err_kind(e),
            Err(_) => "panic".to_string(),
        };
        for (at, when, r) in &init_results {
            ctx.out.count(&format!("wrap:cache-init-result:{}", shown(r).split('(').next().unwrap_or("")));
            let is_top = *at == layers.len() - 1;
            // errors travel upwards unchanged: a cache whose init fails makes every use of the chain fail the same
            // way; a chain that can be used has only caches whose init succeeds; the outermost cache agrees exactly
            let bad = match (shown(r).as_str(), first.as_str()) {
                ("panic", _) => true,
                ("ok", f) => is_top && f != "ok",
                (e, f) => e != f,
            };
            if bad {
                ctx.out.violation(
                    key("init"),
                    format!("Cache::init() of layer {at} {when} answered {} but using the chain answers {first}", shown(r)),
                    replay.clone(),
                );
            }
            if let Some((_, _, r0)) = init_results.iter().find(|x| x.0 == *at) {
                if shown(r0) != shown(r) {
                    ctx.out.violation(key("init-stable"), format!("Cache::init() of layer {at} answered {} {when}, {} at first", shown(r), shown(r0)), replay.clone());
                }
            }
        }
        for h in &handles {
            let n = (h.below_calls)();
            if n != 1 {
                ctx.out.violation(key("recomputed"), format!("the target of the Cache at layer {} was computed {n} times over {} init() calls and {uses} uses (a Cache computes its target once)", h.at, init_results.iter().filter(|x| x.0 == h.at).count()), replay.clone());
            }
            let buf = (h.buffer)();
            match (&results[0], &inner_res) {
                (Ok(Ok(b)), _) if top_is_cache && h.at == layers.len() - 1 => {
                    if &buf != b {
                        ctx.out.violation(key("getter"), format!("Cache::cache() holds {} samples that differ from the {} samples every use returned", buf.len(), b.len()), replay.clone());
                    }
                }
                (Ok(Ok(_)), Ok(Ok(ib))) => {
                    if buf.len() != ib.len() {
                        ctx.out.violation(key("getter"), format!("Cache::cache() of layer {} holds {} samples, the target has {}", h.at, buf.len(), ib.len()), replay.clone());
                    }
                }
                _ => {}
            }
        }
    }
}

/// the device plays what `calc` returned, at the configured division (oracle only)
fn readback_case<M: Modulation + Clone + autd3_core::datagram::Datagram>(ctx: &mut Ctx, m: M, name: &str)
where
    AUTDDriverError: From<M::Error>,
    M::G: autd3_driver::firmware::operation::OperationGenerator,
    AUTDDriverError: From<<<M::G as autd3_driver::firmware::operation::OperationGenerator>::O1 as autd3_core::datagram::Operation>::Error>
        + From<<<M::G as autd3_driver::firmware::operation::OperationGenerator>::O2 as autd3_core::datagram::Operation>::Error>,
{
    let expect = m.clone().calc();
    let div = m.sampling_config().division();
    let g = create_geometry(1);
    let mut cpu = CPUEmulator::new(0, 249);
    let mut tx = new_tx(1);
    // (the default silencer refuses short sampling divisions; that is C08's business, not C16's)
    let _ = send(&mut cpu, Silencer::disable(), &g, &mut tx);
    let sent = guarded(|| send(&mut cpu, m, &g, &mut tx));
    ctx.out.case(None);
    ctx.out.count("readback");
    if let (Ok(buf), Ok(div)) = (expect, div) {
        if !(2..=65536).contains(&buf.len()) {
            return;
        }
        let key = format!("readback:{name}");
        match sent {
            Ok(Ok(())) => {
                let got = cpu.fpga().modulation_buffer(Segment::S0);
                let gdiv = cpu.fpga().modulation_freq_division(Segment::S0);
                if got != buf || gdiv != div {
                    ctx.out.violation(key, format!("{name}: device holds {} samples at division {gdiv}, calc returned {} samples at division {div} (or the data differ)", got.len(), buf.len()), vec![name.to_string()]);
                }
            }
            other => ctx.out.violation(key, format!("{name}: calc succeeded but sending failed: {other:?}"), vec![name.to_string()]),
        }
    }
}

fn prev_f32(x: f32) -> f32 {
    f32::from_bits(x.to_bits() - 1)
}
fn next_f32(x: f32) -> f32 {
    f32::from_bits(x.to_bits() + 1)
}

pub fn run(args: &Args) {
    let mut ctx = Ctx { out: Out::new(&args.out), repaired_len: false, kind_samples: vec![], kinds_seen: Default::default() };
    let thorough = args.tier == "thorough";
    let mut rng = Rng::new(args.seed ^ 0xC16);
    let d10 = CfgSpec::Div(10);
    let d1 = CfgSpec::Div(1);
    let fb = |x: f32| x.to_bits();

    // ------------------------------------------------------------------ corpus / witnesses first
    // O3: Fourier of two exact-float components whose lengths have an lcm above 65536
    let w = FourierSpec {
        comps: vec![(ModeSpec::F(fb(0.625)), d10, 255, 128, 0), (ModeSpec::F(fb(0.9765625)), d10, 255, 128, 0)],
        scale: None,
        clamp: false,
        offset: 0,
    };
    let r = fourier_case(&mut ctx, &w, "corpus");
    ctx.repaired_len = matches!(r, Ok(Err(_)));
    let w = FourierSpec {
        comps: vec![(ModeSpec::N(fb(4000. / 300.)), d10, 255, 128, 0), (ModeSpec::N(fb(4000. / 301.)), d10, 255, 128, 0)],
        scale: None,
        clamp: false,
        offset: 0,
    };
    fourier_case(&mut ctx, &w, "corpus");
    // Square: 1501 Hz at 4 kHz = 503 periods of 2 samples followed by 998 periods of 3 samples
    square_case(&mut ctx, ModeSpec::E(1501), d10, SqOpt::default(), true, "corpus");
    // nearest mode picks the nearest period, not the nearest frequency
    for f in [1650f32, 1620., 1665., 1000.] {
        sine_case(&mut ctx, ModeSpec::N(fb(f)), d10, SineOpt::default(), true, "corpus");
        square_case(&mut ctx, ModeSpec::N(fb(f)), d10, SqOpt::default(), true, "corpus");
    }
    // Cache of a failing target
    wrap_case(&mut ctx, &InnerSpec::Square(ModeSpec::E(5000), d10, SqOpt::default()), &[LayerSpec::Cache], 3, InitMode::Never, "corpus");
    for im in [InitMode::OuterFirst, InitMode::AllFirst, InitMode::Between] {
        wrap_case(&mut ctx, &InnerSpec::Square(ModeSpec::E(5000), d10, SqOpt::default()), &[LayerSpec::Cache], 3, im, "corpus-init");
        wrap_case(&mut ctx, &InnerSpec::Square(ModeSpec::E(150), d10, SqOpt::default()), &[LayerSpec::Box, LayerSpec::Cache], 2, im, "corpus-init");
    }
    // the repository's own examples
    for m in [ModeSpec::E(150), ModeSpec::F(fb(150.)), ModeSpec::E(200), ModeSpec::F(fb(200.)), ModeSpec::F(fb(781.25)), ModeSpec::F(fb(150.01)), ModeSpec::E(2000), ModeSpec::F(fb(2000.)), ModeSpec::E(4000), ModeSpec::F(fb(-0.1)), ModeSpec::E(0), ModeSpec::F(fb(0.)), ModeSpec::N(fb(150.)), ModeSpec::N(fb(781.25))] {
        sine_case(&mut ctx, m, d10, SineOpt::default(), true, "repo-tests");
        square_case(&mut ctx, m, d10, SqOpt::default(), true, "repo-tests");
    }

    // ------------------------------------------------------------------ exhaustive integer frequencies
    // 4 kHz (the default): every f in 0..=2001, Sine with all samples checked, Square in full
    for f in 0..=2001u32 {
        sine_case(&mut ctx, ModeSpec::E(f), d10, SineOpt::default(), true, "4k");
        square_case(&mut ctx, ModeSpec::E(f), d10, SqOpt::default(), true, "4k");
    }
    ctx.out.count_n("exhaustive-4k-frequencies", 2002);
    // 40 kHz: every f in 0..=20001: lengths for all; Square run structure and Sine samples on a subset
    let stride_sq = if thorough { 7 } else { 61 };
    let stride_sine = if thorough { 97 } else { 997 };
    for f in 0..=20001u32 {
        sine_case(&mut ctx, ModeSpec::E(f), d1, SineOpt::default(), f % stride_sine == 0 || f >= 19990, "40k");
        let near_edge = f <= 40 || f >= 19990;
        if f % stride_sq == 0 || near_edge {
            square_case(&mut ctx, ModeSpec::E(f), d1, SqOpt::default(), near_edge || f % (stride_sq * 8) == 0, "40k");
        }
    }
    ctx.out.count_n("exhaustive-40k-frequencies", 20002);

    // ------------------------------------------------------------------ division grid, boundary + random f
    let divs: Vec<u16> = if thorough {
        vec![1, 2, 3, 4, 5, 6, 7, 8, 9, 10, 11, 16, 20, 25, 32, 64, 100, 125, 128, 250, 625, 1000, 1024, 3999, 4000, 4999, 5000, 6666, 6667, 9999, 10000, 13333, 13334, 19998, 19999, 20000, 20001, 39999, 40000, 40001, 65535]
    } else {
        vec![1, 2, 3, 7, 10, 16, 25, 100, 1000, 4999, 5000, 6667, 9999, 10000, 19999, 20000, 40000, 65535]
    };
    let intens = [0u8, 1, 2, 127, 128, 254, 255];
    let offs = [0u8, 1, 127, 128, 129, 254, 255];
    let pi = std::f32::consts::PI;
    let phases = [0f32, pi / 2., pi, -pi / 2., 1.5 * pi, 2. * pi, 1e-3, -7.5, 100., 0.1];
    let duties = [0.5f32, 0.25, 0.1, 0.9, 1. / 3., 0., 1., 1e-10, 0.999999, 0.75];
    for &d in &divs {
        let cfg = CfgSpec::Div(d);
        let nyq = (20000 + d as u32 - 1) / d as u32; // first rejected integer frequency
        let mut fs: Vec<u32> = vec![0, 1, 2, 3, nyq.saturating_sub(3), nyq.saturating_sub(2), nyq.saturating_sub(1), nyq, nyq + 1, 2 * nyq, 40000, 16777217, u32::MAX];
        for _ in 0..(if thorough { 24 } else { 6 }) {
            fs.push(rng.range(1, nyq.max(2) as u64) as u32);
        }
        fs.dedup();
        for &f in &fs {
            let big = d as u64 * f as u64 >= 20000;
            let o = SineOpt { intensity: *rng.pick(&intens), offset: *rng.pick(&offs), phase: fb(*rng.pick(&phases)), clamp: rng.chance(1, 2) };
            sine_case(&mut ctx, ModeSpec::E(f), cfg, SineOpt::default(), false, "grid");
            if !big {
                sine_case(&mut ctx, ModeSpec::E(f), cfg, o, true, "grid");
            }
            let so = SqOpt { low: *rng.pick(&[0u8, 7, 255]), high: *rng.pick(&[255u8, 200, 7]), duty: fb(*rng.pick(&duties)) };
            let rep_est = (f as u64 * d as u64) / gcd(FS, (f as u64 * d as u64).max(1));
            square_case(&mut ctx, ModeSpec::E(f), cfg, so, rep_est <= 3000, "grid");
        }
        ctx.out.count("division-grid");
    }
    // invalid sampling configuration: the config error comes first (or after the sign/zero tests in float mode)
    for m in [ModeSpec::E(150), ModeSpec::E(0), ModeSpec::E(100000), ModeSpec::F(fb(150.)), ModeSpec::F(fb(-1.)), ModeSpec::F(fb(0.)), ModeSpec::F(fb(f32::NAN)), ModeSpec::N(fb(150.)), ModeSpec::N(fb(f32::NAN))] {
        sine_case(&mut ctx, m, CfgSpec::Bad, SineOpt::default(), false, "badcfg");
        square_case(&mut ctx, m, CfgSpec::Bad, SqOpt::default(), false, "badcfg");
        square_case(&mut ctx, m, CfgSpec::Bad, SqOpt { duty: fb(1.5), ..Default::default() }, false, "badcfg");
    }

    // ------------------------------------------------------------------ exact float frequencies
    let fdivs: Vec<u16> = if thorough { vec![1, 2, 3, 7, 10, 16, 25, 100, 1000, 4999, 19999, 65535] } else { vec![1, 10, 19999] };
    for &d in &fdivs {
        let cfg = CfgSpec::Div(d);
        let fsamp = 40000f32 / d as f32;
        let nyq = fsamp / 2.;
        let mut fl: Vec<f32> = vec![
            0., -0., -0.1, f32::NAN, f32::INFINITY, f32::NEG_INFINITY, f32::MIN_POSITIVE, 1e-45, 1e-30, 1e-6,
            nyq, prev_f32(nyq), next_f32(nyq), prev_f32(prev_f32(nyq)), nyq / 2., nyq * 2., 3e38,
            fsamp / 65536., prev_f32(fsamp / 65536.), next_f32(fsamp / 65536.), fsamp / 65537., fsamp / 40000., fsamp / 4096., fsamp / 1000., fsamp / 3.,
            0.625, 0.9765625, 1., 1.5, 12.5, 150., 150.01, 150.00002, 781.25, 0.1, 1. / 3., 133.333, 13333.334, 20000.002, 0.61035156, 100.5, 0.3,
        ];
        for _ in 0..(if thorough { 30 } else { 5 }) {
            // k / 2^j style frequencies (exactly representable, often achievable) and random floats below Nyquist
            let k = rng.range(1, 4000) as f32;
            let j = rng.range(0, 12) as i32;
            fl.push(k / (2f32).powi(j));
            if rng.chance(1, 3) {
                fl.push(f32::from_bits(rng.range(0x3c000000, nyq.to_bits() as u64) as u32));
            }
            fl.push(fsamp / rng.range(3, 70000) as f32);
        }
        for &f in &fl {
            let m = ModeSpec::F(fb(f));
            let r = sine_case(&mut ctx, m, cfg, SineOpt::default(), false, "float");
            if let Ok(Ok(b)) = &r {
                let o = SineOpt { intensity: *rng.pick(&intens), offset: *rng.pick(&offs), phase: fb(*rng.pick(&phases)), clamp: rng.chance(1, 2) };
                sine_case(&mut ctx, m, cfg, o, true, "float");
                let so = SqOpt { low: 0, high: 255, duty: fb(*rng.pick(&duties)) };
                let _ = b;
                square_case(&mut ctx, m, cfg, so, false, "float");
                square_case(&mut ctx, m, cfg, SqOpt::default(), true, "float");
            } else if rng.chance(1, 6) {
                // (a failed search walks all 65536 candidates in the model as well: keep these few)
                square_case(&mut ctx, m, cfg, SqOpt::default(), false, "float");
            }
        }
        ctx.out.count("float-division-grid");
    }

    // ------------------------------------------------------------------ nearest mode, whole float range
    let ndivs: Vec<u16> = if thorough { vec![1, 2, 3, 7, 10, 16, 25, 100, 1000, 4999, 19999, 40000, 65535] } else { vec![1, 3, 10, 100, 19999, 65535] };
    for &d in &ndivs {
        let cfg = CfgSpec::Div(d);
        let fsamp = 40000f32 / d as f32;
        let mut fl: Vec<f32> = vec![0., -0., -1., f32::NAN, f32::INFINITY, f32::NEG_INFINITY, f32::MIN_POSITIVE, 1e-45, 3e38, -3e38, fsamp, fsamp / 2., next_f32(fsamp / 2.), prev_f32(fsamp / 2.), fsamp / 65536., prev_f32(fsamp / 65536.), next_f32(fsamp / 65536.), fsamp / 65535.5, fsamp / 65535.];
        // around every switch point between n and n+1 samples for small n (period midpoint and
        // frequency midpoint differ most there), and for a few large n
        let mut ns: Vec<u32> = (2..=(if thorough { 40 } else { 12 })).collect();
        ns.extend([100, 1000, 4000, 30000, 65534, 65535]);
        for &n in &ns {
            let pm = fsamp / (n as f32 + 0.5);
            let fm = (fsamp / n as f32 + fsamp / (n + 1) as f32) / 2.;
            for x in [pm, prev_f32(pm), next_f32(pm), fm, prev_f32(fm), next_f32(fm), (pm + fm) / 2., fsamp / n as f32] {
                fl.push(x);
            }
        }
        for _ in 0..(if thorough { 200 } else { 40 }) {
            fl.push(f32::from_bits(rng.next() as u32));
            fl.push(fsamp / (2.0 + (rng.below(1 << 20) as f32) / 16.));
        }
        for &f in &fl {
            let m = ModeSpec::N(fb(f));
            let r = sine_case(&mut ctx, m, cfg, SineOpt::default(), false, "nearest");
            if let Ok(Ok(b)) = &r {
                if b.len() <= 3000 || rng.chance(1, 12) {
                    let o = SineOpt { intensity: *rng.pick(&intens), offset: *rng.pick(&offs), phase: fb(*rng.pick(&phases)), clamp: rng.chance(1, 2) };
                    sine_case(&mut ctx, m, cfg, o, true, "nearest");
                }
                square_case(&mut ctx, m, cfg, SqOpt { low: 0, high: 255, duty: fb(*rng.pick(&duties)) }, b.len() <= 20000, "nearest");
            }
        }
        ctx.out.count("nearest-division-grid");
    }

    // ------------------------------------------------------------------ option grids
    let modes = [(ModeSpec::E(150), d10), (ModeSpec::E(200), d10), (ModeSpec::F(fb(781.25)), d10), (ModeSpec::E(1000), d1), (ModeSpec::N(fb(1234.5)), CfgSpec::Div(3))];
    let all_phases = [0f32, pi / 2., pi, -pi / 2., 1.5 * pi, 2. * pi, 1e-3, -7.5, 100., 12345.678, 2e6, f32::INFINITY, f32::NAN, -0.];
    for &(m, c) in &modes {
        for &i in &intens {
            for &o in &offs {
                for clamp in [false, true] {
                    let ph = *rng.pick(&all_phases[..10]);
                    sine_case(&mut ctx, m, c, SineOpt { intensity: i, offset: o, phase: fb(ph), clamp }, true, "options");
                }
            }
        }
        for &ph in &all_phases {
            for (i, o) in [(255u8, 128u8), (255, 127), (100, 50), (255, 0)] {
                sine_case(&mut ctx, m, c, SineOpt { intensity: i, offset: o, phase: fb(ph), clamp: false }, true, "options");
                sine_case(&mut ctx, m, c, SineOpt { intensity: i, offset: o, phase: fb(ph), clamp: true }, true, "options");
            }
        }
        let all_duties = [0.5f32, 0.25, 0.1, 0.9, 1. / 3., 0., -0., 1., 1e-10, 0.999999, next_f32(1.), -1e-9, 2., f32::NAN, f32::INFINITY, f32::MIN_POSITIVE, 0.49999997, 0.50000006];
        for &du in &all_duties {
            for (lo, hi) in [(0u8, 255u8), (255, 0), (7, 7), (10, 200)] {
                let so = SqOpt { low: lo, high: hi, duty: fb(du) };
                square_case(&mut ctx, m, c, so, true, "options");
            }
        }
    }
    ctx.out.count("option-grids");

    // ------------------------------------------------------------------ Fourier
    let scales: [Option<f32>; 7] = [None, Some(1.), Some(0.5), Some(0.25), Some(2.), Some(-1.), Some(0.)];
    let ffreqs = [50u32, 100, 150, 200, 250, 400, 500, 1000, 1250, 1999, 2000, 0];
    for (a, &f1) in ffreqs.iter().enumerate() {
        for &f2 in &ffreqs[a..] {
            let sp = FourierSpec {
                comps: vec![(ModeSpec::E(f1), d10, 255, 128, 0), (ModeSpec::E(f2), d10, 255, 128, fb(pi / 3.))],
                scale: None,
                clamp: false,
                offset: 0,
            };
            fourier_case(&mut ctx, &sp, "pairs");
        }
    }
    let nf = if thorough { 400 } else { 80 };
    for it in 0..nf {
        let k = rng.range(1, 4) as usize;
        // every other Fourier draws the frequency mode per component (Exact + Nearest + ExactFloat in one sum: one
        // length divides 40000, another is arbitrary, so the lcm and the cycling of the short buffers are in a
        // different regime than in equal-mode sets, whose lengths mostly divide each other)
        let mixed = it % 2 == 1;
        let kind0 = rng.below(3);
        let d = *rng.pick(&[1u16, 2, 5, 10, 10, 10, 40, 100]);
        let nyq = (20000 / d as u32).max(2);
        let fsamp = 40000f32 / d as f32;
        let mut comps = vec![];
        for _ in 0..k {
            let f = match rng.below(4) {
                0 => rng.range(1, nyq as u64 - 1) as u32,
                1 => *rng.pick(&[50u32, 100, 125, 200, 250, 500, 1000]) % nyq,
                2 => (nyq / rng.range(2, 40) as u32).max(1),
                _ => rng.range(1, 64) as u32,
            };
            let kind = if mixed { rng.below(3) } else { kind0 };
            let m = match kind {
                0 => ModeSpec::E(f),
                1 => ModeSpec::F(fb(f as f32 / *rng.pick(&[1f32, 2., 4., 8., 1.]))),
                _ if mixed && rng.chance(2, 3) => {
                    // a nearest-mode component of exactly n samples, n coprime to / sharing factors with 40000
                    let n = *rng.pick(&[3u32, 7, 9, 12, 13, 16, 21, 33, 64, 81, 100, 128, 243, 819, 1000, 1024]);
                    ModeSpec::N(fb(fsamp / n as f32))
                }
                _ => ModeSpec::N(fb(f as f32 + 0.37)),
            };
            let cfg = if rng.chance(1, 25) { CfgSpec::Div(d + 1) } else if rng.chance(1, 60) { CfgSpec::Bad } else { CfgSpec::Div(d) };
            comps.push((m, cfg, *rng.pick(&intens), *rng.pick(&offs), fb(*rng.pick(&phases))));
        }
        if rng.chance(1, 20) {
            comps[0].0 = ModeSpec::E(nyq + 5); // a failing component
        }
        let sp = FourierSpec { comps, scale: rng.pick(&scales).map(fb), clamp: rng.chance(1, 2), offset: *rng.pick(&[0u8, 0, 128, 255, 10]) };
        // keep the buffer the unrepaired code would allocate small
        let lens: Vec<u64> = sp.comps.iter().map(|&(m, c, ..)| make_sine(m, c, SineOpt::default()).calc().map(|v| v.len() as u64).unwrap_or(1)).collect();
        let l = lens.iter().fold(1u64, |a, &x| (a / gcd(a, x)).saturating_mul(x));
        if l <= (1 << 22) || ctx.repaired_len {
            fourier_case(&mut ctx, &sp, "random");
        }
    }
    // mixed-mode sums with known lengths: E(50) at 4 kHz is 80 samples; with a nearest-mode component of 819 samples
    // the lcm is 65520 (accepted, each short buffer cycled 819 / 80 times); with 821 samples it is 65680 (refused)
    {
        let fsamp = 4000f32;
        let e50 = (ModeSpec::E(50), d10, 255u8, 128u8, 0u32);
        let mut sets = vec![
            vec![e50, (ModeSpec::N(fb(fsamp / 819.)), d10, 100, 60, fb(1.0))],
            vec![(ModeSpec::N(fb(fsamp / 819.)), d10, 100, 60, fb(1.0)), e50],
            vec![e50, (ModeSpec::F(fb(62.5)), d10, 200, 100, fb(0.5)), (ModeSpec::N(fb(fsamp / 7.)), d10, 100, 60, 0)],
            vec![(ModeSpec::N(fb(fsamp / 9.)), d10, 255, 128, 0), (ModeSpec::E(125), d10, 255, 128, 0), (ModeSpec::F(fb(31.25)), d10, 255, 128, 0), (ModeSpec::N(fb(fsamp / 2.)), d10, 255, 128, 0)],
            vec![(ModeSpec::F(fb(0.9765625)), d10, 255, 128, 0), (ModeSpec::N(fb(fsamp / 16.)), d10, 255, 128, 0), (ModeSpec::E(1000), d10, 255, 128, 0)],
        ];
        if ctx.repaired_len {
            sets.push(vec![e50, (ModeSpec::N(fb(fsamp / 821.)), d10, 100, 60, fb(1.0))]);
            sets.push(vec![(ModeSpec::N(fb(fsamp / 821.)), d10, 100, 60, fb(1.0)), e50]);
            sets.push(vec![(ModeSpec::F(fb(0.625)), d10, 255, 128, 0), e50, (ModeSpec::N(fb(fsamp / 3.)), d10, 255, 128, 0)]);
        }
        for comps in sets {
            fourier_case(&mut ctx, &FourierSpec { comps, scale: None, clamp: false, offset: 0 }, "lcm-edge-mixed");
        }
    }
    fourier_case(&mut ctx, &FourierSpec { comps: vec![], scale: None, clamp: false, offset: 0 }, "empty");
    // lengths whose lcm is exactly at / just below the limit (accepted) ...
    {
        let fsamp = 4000f32;
        for (a, b) in [(65536f32, 256f32), (65536., 65536.), (3., 21845.), (32768., 2.), (4096., 16.)] {
            let sp = FourierSpec {
                comps: vec![(ModeSpec::N(fb(fsamp / a)), d10, 255, 128, 0), (ModeSpec::N(fb(fsamp / b)), d10, 100, 60, fb(1.0))],
                scale: None,
                clamp: false,
                offset: 0,
            };
            fourier_case(&mut ctx, &sp, "lcm-edge");
        }
    }
    // ... just above it, and far beyond any buffer (only run once the length is checked: the
    // unchanged code would allocate the whole lcm)
    if ctx.repaired_len {
        let fsamp = 4000f32;
        for (a, b) in [(2f32, 32769f32), (65537. / 3., 3.), (6., 10923.)] {
            let sp = FourierSpec {
                comps: vec![(ModeSpec::N(fb(fsamp / a)), d10, 255, 128, 0), (ModeSpec::N(fb(fsamp / b)), d10, 255, 128, 0)],
                scale: None,
                clamp: false,
                offset: 0,
            };
            fourier_case(&mut ctx, &sp, "lcm-edge");
        }
    }
    if ctx.repaired_len {
        let fsamp = 4000f32;
        for (a, b) in [(65535f32, 65536f32), (40001., 40003.), (257., 256.), (255., 257.)] {
            let sp = FourierSpec {
                comps: vec![(ModeSpec::N(fb(fsamp / a)), d10, 255, 128, 0), (ModeSpec::N(fb(fsamp / b)), d10, 255, 128, 0)],
                scale: None,
                clamp: false,
                offset: 0,
            };
            fourier_case(&mut ctx, &sp, "lcm");
        }
    }
    ctx.out.count("fourier-generators");

    // ------------------------------------------------------------------ wrappers
    let all256: Vec<u8> = (0..=255).collect();
    wrap_case(&mut ctx, &InnerSpec::Custom(d10, all256.clone()), &[LayerSpec::Rp], 1, InitMode::Never, "rp-all");
    wrap_case(&mut ctx, &InnerSpec::Custom(d10, all256.clone()), &[LayerSpec::Rp, LayerSpec::Rp], 1, InitMode::Never, "rp-all");
    let coef_vals = [1f32, 0.5, 0.25, -0.5, 1. / 3., 2., 1e-3, 0., 0.1, 0.7, -1., 1e38, 1e-40, f32::INFINITY, f32::NAN];
    // 0 = rp, 1 = cache, 2 = fir, 3 = box. Cache of Cache ([1,1]) and `Cache::new(m.into_boxed())` ([.., 3, 1, ..]: box as
    // an inner layer, the common user shape) included
    let shapes: Vec<Vec<u8>> = vec![
        vec![0], vec![1], vec![2], vec![3], vec![0, 1], vec![1, 0], vec![2, 0], vec![0, 2], vec![2, 1], vec![1, 2], vec![2, 0, 1], vec![0, 0], vec![1, 3], vec![2, 3], vec![2, 1, 3], vec![0, 2, 1],
        vec![1, 1], vec![3, 1], vec![1, 1, 0], vec![3, 1, 0], vec![2, 3, 1], vec![0, 3, 1, 1], vec![1, 2, 1], vec![2, 0, 3, 1, 2],
    ];
    let nw = if thorough { 720 } else { 144 };
    for it in 0..nw {
        let inner = if rng.chance(2, 3) {
            let len = *rng.pick(&[0usize, 1, 2, 3, 5, 10, 31, 100, 300]);
            let cfg = if rng.chance(1, 12) { CfgSpec::Bad } else { CfgSpec::Div(*rng.pick(&[1u16, 10, 10, 7, 65535])) };
            InnerSpec::Custom(cfg, pr_bytes(rng.next(), len))
        } else {
            let f = *rng.pick(&[150u32, 200, 1000, 1999, 2000, 0, 5000, 37]);
            InnerSpec::Square(ModeSpec::E(f), d10, SqOpt { low: 0, high: 255, duty: fb(*rng.pick(&duties)) })
        };
        let shape = &shapes[it % shapes.len()];
        let layers: Vec<LayerSpec> = shape
            .iter()
            .map(|&k| match k {
                0 => LayerSpec::Rp,
                1 => LayerSpec::Cache,
                2 => {
                    let n = *rng.pick(&[0usize, 1, 2, 3, 4, 5, 8, 9]);
                    let wild = rng.chance(1, 10);
                    LayerSpec::Fir((0..n).map(|_| fb(if wild { *rng.pick(&coef_vals) } else { *rng.pick(&coef_vals[..11]) })).collect())
                }
                _ => LayerSpec::Box,
            })
            .collect();
        // `box` shapes are only the outermost layer of a cache-free chain of at most fir, rp
        // or directly followed by a cache (`Cache::new(boxed)`), again over at most fir, rp
        let bpos = shape.iter().position(|&k| k == 3);
        let boxed_ok = match bpos {
            None => true,
            Some(p) => {
                shape.iter().filter(|&&k| k == 3).count() == 1
                    && !shape[..p].contains(&1)
                    && matches!(&shape[..p], [] | [0] | [2] | [2, 0])
                    && (p == shape.len() - 1 || shape[p + 1] == 1)
            }
        };
        if !boxed_ok {
            continue;
        }
        let uses = if layers.contains(&LayerSpec::Cache) { rng.range(2, 4) as usize } else { 1 };
        // explicit `init()` on every other case with a cache (cycling through the three places it can be called)
        let im = match (it / shapes.len()) % 6 { 1 => InitMode::OuterFirst, 3 => InitMode::AllFirst, 5 => InitMode::Between, _ => InitMode::Never };
        wrap_case(&mut ctx, &inner, &layers, uses, im, "random");
    }
    for shape in [vec![LayerSpec::Box], vec![LayerSpec::Rp, LayerSpec::Box], vec![LayerSpec::Fir(vec![fb(0.5), fb(0.5)]), LayerSpec::Box], vec![LayerSpec::Fir(vec![fb(0.25), fb(0.5), fb(0.25)]), LayerSpec::Rp, LayerSpec::Box]] {
        for inner in [
            InnerSpec::Custom(d10, pr_bytes(7, 40)),
            InnerSpec::Custom(CfgSpec::Div(65535), pr_bytes(8, 2)),
            InnerSpec::Custom(CfgSpec::Bad, pr_bytes(9, 5)),
            InnerSpec::Square(ModeSpec::E(150), d10, SqOpt::default()),
            InnerSpec::Square(ModeSpec::E(2000), d10, SqOpt::default()),
        ] {
            wrap_case(&mut ctx, &inner, &shape, 1, InitMode::Never, "boxed");
        }
    }
    // wrappers over the float-valued generators: oracle only through the same path (Sine inside Cache etc.)
    for (m, c) in [(ModeSpec::E(150), d10), (ModeSpec::F(fb(781.25)), d10), (ModeSpec::N(fb(333.)), d1), (ModeSpec::E(3000), d10)] {
        let s = make_sine(m, c, SineOpt::default());
        let base = s.calc();
        let cache = Cache::new(s);
        // explicit initialisation first (the public `init()`), then three uses, then the getter
        let init = cache.init();
        let uses: Vec<_> = (0..3).map(|_| cache.clone().calc()).collect();
        if init.as_ref().err() != base.as_ref().err() || (base.is_ok() && Ok(cache.cache().borrow().clone()) != base) || cache.init().err() != base.as_ref().err().cloned() {
            ctx.out.violation(format!("wrap:sine-init:{}:{}", m.tok(), c.tok()), format!("Cache::init()/cache() of Sine {} disagree with Sine::calc", m.tok()), vec![format!("sine {} {}", m.tok(), c.tok())]);
        }
        let boxed = s.into_boxed();
        let bcfg = cfg_name(boxed.sampling_config());
        let b = boxed.calc();
        ctx.out.case(None);
        ctx.out.count("sine-wrappers");
        let key = format!("wrap:sine:{}:{}", m.tok(), c.tok());
        if uses.iter().any(|u| *u != base) || b != base || bcfg != cfg_name(c.cfg()) || cfg_name(cache.sampling_config()) != cfg_name(c.cfg()) {
            ctx.out.violation(key, format!("Cache/boxed of Sine {} changed the result or the configuration", m.tok()), vec![format!("sine {} {}", m.tok(), c.tok())]);
        }
        let rp = RadiationPressure::new(s).calc();
        let fir = Fir::new(s, [0.25f32, 0.5, 0.25]).calc();
        if rp.as_ref().map(|v| v.len()).ok() != base.as_ref().map(|v| v.len()).ok() || fir.as_ref().map(|v| v.len()).ok() != base.as_ref().map(|v| v.len()).ok() {
            ctx.out.violation(format!("wrap:sine-len:{}:{}", m.tok(), c.tok()), format!("Fir/RadiationPressure of Sine {} changed the length", m.tok()), vec![format!("sine {} {}", m.tok(), c.tok())]);
        }
    }

    // ------------------------------------------------------------------ the device plays what calc returned
    for (m, c) in [(ModeSpec::E(150), d10), (ModeSpec::E(1), d1), (ModeSpec::F(fb(781.25)), d10), (ModeSpec::N(fb(0.)), d10), (ModeSpec::N(fb(1e9)), CfgSpec::Div(65535)), (ModeSpec::E(1999), d10)] {
        readback_case(&mut ctx, make_sine(m, c, SineOpt::default()), &format!("sine {} {}", m.tok(), c.tok()));
        readback_case(&mut ctx, make_square(m, c, SqOpt::default()), &format!("square {} {}", m.tok(), c.tok()));
    }
    readback_case(
        &mut ctx,
        Fourier { components: vec![make_sine(ModeSpec::E(50), d10, SineOpt::default()), make_sine(ModeSpec::E(125), d10, SineOpt::default())], option: FourierOption::default() },
        "fourier E50+E125 d10",
    );

    for smp in std::mem::take(&mut ctx.kind_samples) {
        ctx.out.sample(smp);
    }
    ctx.out.finish(
        "modgen",
        "a case is one generator call (Sine/Square/Fourier/wrapper chain); non-trivial = it returned a buffer; distinct by all parameters (mode, frequency bits, division, options)",
    );
}
