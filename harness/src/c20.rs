//! `lw` stream (C20): the lightweight (gRPC) protocol delivers the datagram the client built.
//!
//! Every line travels as an S-expression; `~` = absent optional field; `f32` as IEEE bit pattern; `Duration`
//! as nanoseconds; bools 0/1.  The same grammar is decoded by `lean/Autd3/Drv/C20.lean`.
//!
//! SDK values (what the client holds / what `from_msg` rebuilds):
//! ```text
//! p3    := (p X Y Z)                      ip   := (o I P)
//! cons  := (norm) | (mul B) | (uni V) | (clamp A B)          holo := (h p3 AMP)
//! gain  := (focus p3 ip) | (bessel p3 p3 THETA ip) | (plane p3 ip) | (uniform I P) | (null)
//!        | (naive (l holo*) cons) | (gs (l holo*) cons REP) | (gspat (l holo*) cons REP)
//!        | (lm (l holo*) cons E1 E2 TAU KMAX (l INIT*)) | (greedy (l holo*) cons PDIV)
//! sc    := (div N) | (freq B) | (freqn B) | (per NS) | (pern NS)
//! mod   := (static I) | (sine_e F so) | (sine_f B so) | (sine_n B so) | (sq_e F qo) | (sq_f B qo) | (sq_n B qo)
//!          so := (so sc I OFF PHASE CLAMP)    qo := (qo sc LOW HIGH DUTY)
//! sil   := (rate I P) | (steps I P STRICT) | (time I_NS P_NS STRICT)
//! tr    := (sidx) | (sys T) | (gpio G) | (ext) | (imm)       lb := (inf) | (fin REP)
//! swap  := (swap g|m|f|s SEG tr)
//! foci  := (foci N (l (cps (l (cp p3 OFF)*) I)*) sc)         gstm := (gstm (l gain*) sc MODE)
//! dg    := (clear) | (sync) | (fan (l B*)) | (reads (l B*)) | sil | swap | mod | gain | foci | gstm
//!        | (wseg gain|mod|foci|gstm SEG tr?) | (wloop mod|foci|gstm lb SEG tr?)
//! tuple := (t1 dg) | (t2 dg dg)
//! sopt  := (sopt SEND_NS RECV_NS TIMEOUT_NS? PAR sleeper)    sleeper := (std R?) | (spin ACC STRAT) | (async R?)
//! ```
//! (oracle-only STM configs, never sent to the model: `(stmfreq B) (stmfreqn B) (stmper NS) (stmpern NS)`.)
//! Messages (prost structs; every message is `(tag field…)`, a `oneof` prints the chosen payload, the one-field
//! wrappers EmitIntensity/Phase/Angle/Amplitude print as their value):
//! ```text
//! (o I? P?) (c V?) (h p3? AMP?) (gain V?) (no c?) (go c? REP?) (lo c? E1? E2? TAU? KMAX? (l INIT*)) (gro c? PDIV?)
//! (sc V?) (so sc? I? OFF? PHASE? CLAMP?) (qo sc? LOW? HIGH? DUTY?) (mod V?) (sil V?) (tr V?) (lb V?)
//! (swap V?) with V = (g|m|f|s SEG tr?)   (cp p3? OFF?) (cps (l cp*) I?) (foci (l cps*) sc?) (gstm (l gain*) sc? gso?) (gso MODE?)
//! (wseg INNER? SEG tr?) (wloop INNER? lb? SEG tr?) (d V?) (tuple d? d?)
//! (sopt SEND RECV TIMEOUT? PAR SLEEPER?) with SLEEPER = (std R?) | (spin ACC STRAT) | (wait) | (async R?)
//! (send tuple? sopt?) (gsend (l KEY*) (l tuple*) sopt?)
//! ```
//! Op lines: `defaults`, `tomsg`, `soptmsg`, `leaf`, `srv`, `gsrv` (see the Lean driver).
//!
//! Oracles (on the implementation only):
//!   * `C20:roundtrip:<kind>`  `from_msg(to_msg(d))` prints differently from `d` (bit level);
//!   * `C20:frames:<kind>`     frames on the link / device state behind an in-process `LightweightServer` differ
//!                             from an async `Controller` that was sent the original datagram;
//!   * `C20:panic:<what>`      the server (or the client conversion) panicked on a message;
//!   * `C20:accepted:<what>`   a message with a missing required field / out-of-range number was not answered
//!                             with an error;
//!   * `C20:open:sound-speed-dropped`  probe: a client geometry with a non-default sound speed gives other frames
//!                             through the server than directly (fires on the unchanged tree);
//!   * `C20:rpc:<fpga_state|firmware_version>`  the RPC's response, decoded by the client's `from_msg`, differs from
//!                             the direct controller's result (oracle only);
//!   * `C20:lifecycle:<step>`  RPC before open / open without geometry / bare device / second open / close (oracle only);
//!   * `C20:delayed-ack:<case>` behind a link that withholds acknowledgements: SenderOption timeout / receive interval
//!                             and the merged DatagramOption timeout of a pair (oracle only, three attempts).
//! Model-invisible generator dimensions: the geometry handed to `open` (`devices_v`: rotated / shifted devices).
#![allow(dead_code, clippy::all)]
use crate::common::*;
use autd3::prelude::*;
use autd3_core::acoustics::directivity::Sphere;
use autd3_core::defined::Freq;
use autd3_core::geometry::Device;
use autd3_core::link::{AsyncLink, LinkError};
use autd3_driver::datagram::{
    BoxedDatagram, BoxedGain, ControlPoint, ControlPoints, FixedCompletionSteps, FixedCompletionTime, FixedUpdateRate, GainSTMOption,
    IntoBoxedDatagram, IntoBoxedGain,
};
use autd3_driver::firmware::cpu::{GainSTMMode, RxMessage, TxMessage};
use autd3_firmware_emulator::CPUEmulator;
use autd3_gain_holo::{
    Amplitude, EmissionConstraint, GS, GSOption, GSPAT, GSPATOption, Greedy, GreedyOption, LM, LMOption, NalgebraBackend, Naive, NaiveOption, Pa,
};
use autd3_protobuf as pb;
use autd3_protobuf::lightweight::{IntoLightweightGain, LightweightServer};
use autd3_protobuf::{AUTDProtoBufError, FromMessage};
use pb::ecat_light_server::EcatLight;
use std::num::{NonZeroU8, NonZeroU16, NonZeroU32, NonZeroUsize};
use std::sync::{Arc, Mutex};
use std::time::Duration;
use zerocopy::IntoBytes;

type NB = NalgebraBackend<Sphere>;

// ================================================================================================
// S-expressions

#[derive(Clone, Debug, PartialEq)]
pub enum Sx {
    A(String),
    L(Vec<Sx>),
}

pub fn a(x: impl ToString) -> Sx {
    Sx::A(x.to_string())
}
pub fn none() -> Sx {
    Sx::A("~".into())
}
pub fn n(tag: &str, mut args: Vec<Sx>) -> Sx {
    let mut v = vec![a(tag)];
    v.append(&mut args);
    Sx::L(v)
}
pub fn lst(items: Vec<Sx>) -> Sx {
    n("l", items)
}
pub fn b(x: bool) -> Sx {
    a(x as u8)
}
pub fn opt<T>(o: Option<T>, f: impl FnOnce(T) -> Sx) -> Sx {
    match o {
        Some(x) => f(x),
        None => none(),
    }
}

impl Sx {
    pub fn text(&self) -> String {
        match self {
            Sx::A(s) => s.clone(),
            Sx::L(v) => format!("({})", v.iter().map(|x| x.text()).collect::<Vec<_>>().join(" ")),
        }
    }
    pub fn parse(s: &str) -> Option<Vec<Sx>> {
        let mut stack: Vec<Vec<Sx>> = vec![vec![]];
        let mut cur = String::new();
        let flush = |cur: &mut String, stack: &mut Vec<Vec<Sx>>| {
            if !cur.is_empty() {
                stack.last_mut().unwrap().push(Sx::A(std::mem::take(cur)));
            }
        };
        for c in s.chars() {
            match c {
                '(' => {
                    flush(&mut cur, &mut stack);
                    stack.push(vec![]);
                }
                ')' => {
                    flush(&mut cur, &mut stack);
                    let top = stack.pop()?;
                    stack.last_mut()?.push(Sx::L(top));
                }
                c if c.is_whitespace() => flush(&mut cur, &mut stack),
                c => cur.push(c),
            }
        }
        flush(&mut cur, &mut stack);
        if stack.len() == 1 { stack.pop() } else { None }
    }
    pub fn head(&self) -> &str {
        match self {
            Sx::L(v) => match v.first() {
                Some(Sx::A(s)) => s.as_str(),
                _ => "",
            },
            Sx::A(_) => "",
        }
    }
    /// argument `i` (1-based; 0 is the tag)
    pub fn at(&self, i: usize) -> &Sx {
        match self {
            Sx::L(v) => &v[i],
            _ => panic!("not a list: {}", self.text()),
        }
    }
    pub fn items(&self) -> &[Sx] {
        match self {
            Sx::L(v) => &v[1..],
            _ => &[],
        }
    }
    pub fn is_none(&self) -> bool {
        matches!(self, Sx::A(s) if s == "~")
    }
    pub fn u(&self) -> u64 {
        match self {
            Sx::A(s) => s.parse().unwrap_or_else(|_| panic!("not a number: {s}")),
            _ => panic!("not an atom"),
        }
    }
    pub fn i(&self) -> i64 {
        match self {
            Sx::A(s) => s.parse().unwrap_or_else(|_| panic!("not a number: {s}")),
            _ => panic!("not an atom"),
        }
    }
    pub fn f(&self) -> f32 {
        f32::from_bits(self.u() as u32)
    }
    pub fn bool(&self) -> bool {
        self.u() != 0
    }
    pub fn o<T>(&self, f: impl FnOnce(&Sx) -> T) -> Option<T> {
        if self.is_none() { None } else { Some(f(self)) }
    }
    pub fn get_mut(&mut self, path: &[usize]) -> &mut Sx {
        let mut cur = self;
        for &i in path {
            cur = match cur {
                Sx::L(v) => &mut v[i],
                _ => panic!("bad path"),
            };
        }
        cur
    }
}

// ================================================================================================
// spec (SDK value as Sx) -> real SDK values

fn p3(s: &Sx) -> Point3 {
    Point3::new(s.at(1).f(), s.at(2).f(), s.at(3).f())
}
fn uv(s: &Sx) -> UnitVector3 {
    UnitVector3::new_unchecked(Vector3::new(s.at(1).f(), s.at(2).f(), s.at(3).f()))
}
fn seg(s: &Sx) -> Segment {
    if s.u() == 0 { Segment::S0 } else { Segment::S1 }
}
fn gpio_in(v: u64) -> GPIOIn {
    match v {
        0 => GPIOIn::I0,
        1 => GPIOIn::I1,
        2 => GPIOIn::I2,
        _ => GPIOIn::I3,
    }
}
fn tr(s: &Sx) -> TransitionMode {
    match s.head() {
        "sidx" => TransitionMode::SyncIdx,
        "sys" => TransitionMode::SysTime(DcSysTime::ZERO + Duration::from_nanos(s.at(1).u())),
        "gpio" => TransitionMode::GPIO(gpio_in(s.at(1).u())),
        "ext" => TransitionMode::Ext,
        "imm" => TransitionMode::Immediate,
        h => panic!("tr {h}"),
    }
}
fn lb(s: &Sx) -> LoopBehavior {
    match s.head() {
        "inf" => LoopBehavior::Infinite,
        _ => LoopBehavior::Finite(NonZeroU16::new(s.at(1).u() as u16).unwrap()),
    }
}
fn sc(s: &Sx) -> SamplingConfig {
    match s.head() {
        "div" => SamplingConfig::Division(NonZeroU16::new(s.at(1).u() as u16).unwrap()),
        "freq" => SamplingConfig::Freq(s.at(1).f() * Hz),
        "freqn" => SamplingConfig::Freq(s.at(1).f() * Hz).into_nearest(),
        "per" => SamplingConfig::Period(Duration::from_nanos(s.at(1).u())),
        "pern" => SamplingConfig::Period(Duration::from_nanos(s.at(1).u())).into_nearest(),
        h => panic!("sc {h}"),
    }
}
fn cons(s: &Sx) -> EmissionConstraint {
    match s.head() {
        "norm" => EmissionConstraint::Normalize,
        "mul" => EmissionConstraint::Multiply(s.at(1).f()),
        "uni" => EmissionConstraint::Uniform(EmitIntensity(s.at(1).u() as u8)),
        "clamp" => EmissionConstraint::Clamp(EmitIntensity(s.at(1).u() as u8), EmitIntensity(s.at(2).u() as u8)),
        h => panic!("cons {h}"),
    }
}
fn holos(s: &Sx) -> Vec<(Point3, Amplitude)> {
    s.items().iter().map(|h| (p3(h.at(1)), h.at(2).f() * Pa)).collect()
}
fn sine_opt(s: &Sx) -> SineOption {
    SineOption {
        sampling_config: sc(s.at(1)),
        intensity: s.at(2).u() as u8,
        offset: s.at(3).u() as u8,
        phase: s.at(4).f() * rad,
        clamp: s.at(5).bool(),
    }
}
fn square_opt(s: &Sx) -> SquareOption {
    SquareOption { sampling_config: sc(s.at(1)), low: s.at(2).u() as u8, high: s.at(3).u() as u8, duty: s.at(4).f() }
}
fn nz16(s: &Sx) -> NonZeroU16 {
    NonZeroU16::new(s.u() as u16).unwrap()
}

macro_rules! with_gain {
    ($s:expr, $g:ident => $body:expr) => {{
        let s: &Sx = $s;
        match s.head() {
            "focus" => {
                let o = s.at(2);
                let $g = Focus { pos: p3(s.at(1)), option: FocusOption { intensity: EmitIntensity(o.at(1).u() as u8), phase_offset: Phase(o.at(2).u() as u8) } };
                $body
            }
            "bessel" => {
                let o = s.at(4);
                let $g = Bessel {
                    pos: p3(s.at(1)),
                    dir: uv(s.at(2)),
                    theta: s.at(3).f() * rad,
                    option: BesselOption { intensity: EmitIntensity(o.at(1).u() as u8), phase_offset: Phase(o.at(2).u() as u8) },
                };
                $body
            }
            "plane" => {
                let o = s.at(2);
                let $g = Plane { dir: uv(s.at(1)), option: PlaneOption { intensity: EmitIntensity(o.at(1).u() as u8), phase_offset: Phase(o.at(2).u() as u8) } };
                $body
            }
            "uniform" => {
                let $g = Uniform { intensity: EmitIntensity(s.at(1).u() as u8), phase: Phase(s.at(2).u() as u8) };
                $body
            }
            "null" => {
                let $g = Null {};
                $body
            }
            "naive" => {
                let $g = Naive::<Sphere, NB> {
                    foci: holos(s.at(1)),
                    option: NaiveOption { constraint: cons(s.at(2)), __phantom: std::marker::PhantomData },
                    backend: Arc::new(NB::default()),
                };
                $body
            }
            "gs" => {
                let $g = GS::<Sphere, NB> {
                    foci: holos(s.at(1)),
                    option: GSOption { constraint: cons(s.at(2)), repeat: NonZeroUsize::new(s.at(3).u() as usize).unwrap(), __phantom: std::marker::PhantomData },
                    backend: Arc::new(NB::default()),
                };
                $body
            }
            "gspat" => {
                let $g = GSPAT::<Sphere, NB> {
                    foci: holos(s.at(1)),
                    option: GSPATOption { constraint: cons(s.at(2)), repeat: NonZeroUsize::new(s.at(3).u() as usize).unwrap(), __phantom: std::marker::PhantomData },
                    backend: Arc::new(NB::default()),
                };
                $body
            }
            "lm" => {
                let $g = LM::<Sphere, NB> {
                    foci: holos(s.at(1)),
                    option: LMOption {
                        constraint: cons(s.at(2)),
                        eps_1: s.at(3).f(),
                        eps_2: s.at(4).f(),
                        tau: s.at(5).f(),
                        k_max: NonZeroUsize::new(s.at(6).u() as usize).unwrap(),
                        initial: s.at(7).items().iter().map(|x| x.f()).collect(),
                        __phantom: std::marker::PhantomData,
                    },
                    backend: Arc::new(NB::default()),
                };
                $body
            }
            "greedy" => {
                let $g = Greedy::<Sphere> {
                    foci: holos(s.at(1)),
                    option: GreedyOption { constraint: cons(s.at(2)), phase_div: NonZeroU8::new(s.at(3).u() as u8).unwrap(), __phantom: std::marker::PhantomData },
                };
                $body
            }
            h => panic!("gain {h}"),
        }
    }};
}

macro_rules! with_mod {
    ($s:expr, $m:ident => $body:expr) => {{
        let s: &Sx = $s;
        match s.head() {
            "static" => {
                let $m = Static { intensity: s.at(1).u() as u8 };
                $body
            }
            "sine_e" => {
                let $m = Sine { freq: (s.at(1).u() as u32) * Hz, option: sine_opt(s.at(2)) };
                $body
            }
            "sine_f" => {
                let $m = Sine { freq: s.at(1).f() * Hz, option: sine_opt(s.at(2)) };
                $body
            }
            "sine_n" => {
                let $m = Sine { freq: s.at(1).f() * Hz, option: sine_opt(s.at(2)) }.into_nearest();
                $body
            }
            "sq_e" => {
                let $m = Square { freq: (s.at(1).u() as u32) * Hz, option: square_opt(s.at(2)) };
                $body
            }
            "sq_f" => {
                let $m = Square { freq: s.at(1).f() * Hz, option: square_opt(s.at(2)) };
                $body
            }
            "sq_n" => {
                let $m = Square { freq: s.at(1).f() * Hz, option: square_opt(s.at(2)) }.into_nearest();
                $body
            }
            h => panic!("mod {h}"),
        }
    }};
}

fn cps_n<const N: usize>(s: &Sx) -> Vec<ControlPoints<N>> {
    s.items()
        .iter()
        .map(|c| {
            let mut pts = [ControlPoint::default(); N];
            for (j, cp) in c.at(1).items().iter().enumerate() {
                pts[j] = ControlPoint { point: p3(cp.at(1)), phase_offset: Phase(cp.at(2).u() as u8) };
            }
            ControlPoints { points: pts, intensity: EmitIntensity(c.at(2).u() as u8) }
        })
        .collect()
}

/// `$f` is a `FociSTM<N, Vec<ControlPoints<N>>, C>`; `C = SamplingConfig` for every N, the four other configs for N = 1, 2
macro_rules! with_foci {
    ($s:expr, $f:ident => $body:expr) => {{
        let s: &Sx = $s;
        let c = s.at(3);
        macro_rules! arm {
            ($n:literal) => {{
                match c.head() {
                    "stmfreq" | "stmfreqn" | "stmper" | "stmpern" => with_foci_cfg!($n, s, c, $f => $body),
                    _ => {
                        let $f = FociSTM { foci: cps_n::<$n>(s.at(2)), config: sc(c) };
                        $body
                    }
                }
            }};
        }
        match s.at(1).u() {
            1 => arm!(1),
            2 => arm!(2),
            3 => {
                let $f = FociSTM { foci: cps_n::<3>(s.at(2)), config: sc(c) };
                $body
            }
            4 => {
                let $f = FociSTM { foci: cps_n::<4>(s.at(2)), config: sc(c) };
                $body
            }
            5 => {
                let $f = FociSTM { foci: cps_n::<5>(s.at(2)), config: sc(c) };
                $body
            }
            6 => {
                let $f = FociSTM { foci: cps_n::<6>(s.at(2)), config: sc(c) };
                $body
            }
            7 => {
                let $f = FociSTM { foci: cps_n::<7>(s.at(2)), config: sc(c) };
                $body
            }
            8 => {
                let $f = FociSTM { foci: cps_n::<8>(s.at(2)), config: sc(c) };
                $body
            }
            k => panic!("foci N={k}"),
        }
    }};
}
macro_rules! with_foci_cfg {
    ($n:literal, $s:expr, $c:expr, $f:ident => $body:expr) => {{
        match $c.head() {
            "stmfreq" => {
                let $f = FociSTM { foci: cps_n::<$n>($s.at(2)), config: $c.at(1).f() * Hz };
                $body
            }
            "stmfreqn" => {
                let $f = FociSTM { foci: cps_n::<$n>($s.at(2)), config: $c.at(1).f() * Hz }.into_nearest();
                $body
            }
            "stmper" => {
                let $f = FociSTM { foci: cps_n::<$n>($s.at(2)), config: Duration::from_nanos($c.at(1).u()) };
                $body
            }
            _ => {
                let $f = FociSTM { foci: cps_n::<$n>($s.at(2)), config: Duration::from_nanos($c.at(1).u()) }.into_nearest();
                $body
            }
        }
    }};
}

fn gstm_mode(v: u64) -> GainSTMMode {
    match v {
        0 => GainSTMMode::PhaseIntensityFull,
        1 => GainSTMMode::PhaseFull,
        _ => GainSTMMode::PhaseHalf,
    }
}
/// the form the lightweight client sends: gains already converted with `IntoLightweightGain::into_lightweight`
fn gstm_lw_gains(s: &Sx) -> Vec<pb::Gain> {
    s.at(1).items().iter().map(|g| with_gain!(g, x => x.into_lightweight())).collect()
}
/// the same GainSTM as the SDK user would send it directly
fn gstm_direct_gains(s: &Sx) -> Vec<BoxedGain> {
    s.at(1).items().iter().map(|g| with_gain!(g, x => IntoBoxedGain::into_boxed(x))).collect()
}
macro_rules! with_gstm {
    ($gains:ident, $s:expr, $g:ident => $body:expr) => {{
        let s: &Sx = $s;
        let c = s.at(2);
        let option = GainSTMOption { mode: gstm_mode(s.at(3).u()) };
        match c.head() {
            "stmfreq" => {
                let $g = GainSTM { gains: $gains(s), config: c.at(1).f() * Hz, option };
                $body
            }
            "stmfreqn" => {
                let $g = GainSTM { gains: $gains(s), config: c.at(1).f() * Hz, option }.into_nearest();
                $body
            }
            "stmper" => {
                let $g = GainSTM { gains: $gains(s), config: Duration::from_nanos(c.at(1).u()), option };
                $body
            }
            "stmpern" => {
                let $g = GainSTM { gains: $gains(s), config: Duration::from_nanos(c.at(1).u()), option }.into_nearest();
                $body
            }
            _ => {
                let $g = GainSTM { gains: $gains(s), config: sc(c), option };
                $body
            }
        }
    }};
}
/// inside wrappers only the `SamplingConfig` form is used (keeps the number of instantiations down)
macro_rules! with_gstm_sc {
    ($gains:ident, $s:expr, $g:ident => $body:expr) => {{
        let s: &Sx = $s;
        let $g = GainSTM { gains: $gains(s), config: sc(s.at(2)), option: GainSTMOption { mode: gstm_mode(s.at(3).u()) } };
        $body
    }};
}
macro_rules! with_foci_sc {
    ($s:expr, $f:ident => $body:expr) => {{
        let s: &Sx = $s;
        let c = s.at(3);
        match s.at(1).u() {
            1 => {
                let $f = FociSTM { foci: cps_n::<1>(s.at(2)), config: sc(c) };
                $body
            }
            2 => {
                let $f = FociSTM { foci: cps_n::<2>(s.at(2)), config: sc(c) };
                $body
            }
            3 => {
                let $f = FociSTM { foci: cps_n::<3>(s.at(2)), config: sc(c) };
                $body
            }
            4 => {
                let $f = FociSTM { foci: cps_n::<4>(s.at(2)), config: sc(c) };
                $body
            }
            5 => {
                let $f = FociSTM { foci: cps_n::<5>(s.at(2)), config: sc(c) };
                $body
            }
            6 => {
                let $f = FociSTM { foci: cps_n::<6>(s.at(2)), config: sc(c) };
                $body
            }
            7 => {
                let $f = FociSTM { foci: cps_n::<7>(s.at(2)), config: sc(c) };
                $body
            }
            8 => {
                let $f = FociSTM { foci: cps_n::<8>(s.at(2)), config: sc(c) };
                $body
            }
            k => panic!("foci N={k}"),
        }
    }};
}

const GAIN_TAGS: [&str; 10] = ["focus", "bessel", "plane", "uniform", "null", "naive", "gs", "gspat", "lm", "greedy"];
const MOD_TAGS: [&str; 7] = ["static", "sine_e", "sine_f", "sine_n", "sq_e", "sq_f", "sq_n"];

fn flags(s: &Sx) -> Vec<bool> {
    s.items().iter().map(|x| x.bool()).collect()
}

/// `$gains` = `gstm_lw_gains` (client form) or `gstm_direct_gains` (direct form)
macro_rules! with_dg {
    ($gains:ident, $s:expr, $d:ident => $body:expr) => {{
        let s: &Sx = $s;
        let h = s.head();
        if h == "clear" {
            let $d = Clear::new();
            $body
        } else if h == "sync" {
            let $d = autd3_driver::datagram::Synchronize::new();
            $body
        } else if h == "fan" {
            let v = flags(s.at(1));
            let $d = ForceFan::new(move |dev: &Device| v[dev.idx()]);
            $body
        } else if h == "reads" {
            let v = flags(s.at(1));
            let $d = ReadsFPGAState::new(move |dev: &Device| v[dev.idx()]);
            $body
        } else if h == "rate" {
            let $d = Silencer { config: FixedUpdateRate { intensity: nz16(s.at(1)), phase: nz16(s.at(2)) } };
            $body
        } else if h == "steps" {
            let $d = Silencer { config: FixedCompletionSteps { intensity: nz16(s.at(1)), phase: nz16(s.at(2)), strict_mode: s.at(3).bool() } };
            $body
        } else if h == "time" {
            let $d = Silencer {
                config: FixedCompletionTime { intensity: Duration::from_nanos(s.at(1).u()), phase: Duration::from_nanos(s.at(2).u()), strict_mode: s.at(3).bool() },
            };
            $body
        } else if h == "swap" {
            let (sg, t) = (seg(s.at(2)), tr(s.at(3)));
            let $d = match s.at(1).text().as_str() {
                "g" => SwapSegment::Gain(sg, t),
                "m" => SwapSegment::Modulation(sg, t),
                "f" => SwapSegment::FociSTM(sg, t),
                _ => SwapSegment::GainSTM(sg, t),
            };
            $body
        } else if MOD_TAGS.contains(&h) {
            with_mod!(s, $d => $body)
        } else if GAIN_TAGS.contains(&h) {
            with_gain!(s, $d => $body)
        } else if h == "foci" {
            with_foci!(s, $d => $body)
        } else if h == "gstm" {
            with_gstm!($gains, s, $d => $body)
        } else if h == "wseg" {
            let inner = s.at(1);
            let (segment, transition_mode) = (seg(s.at(2)), s.at(3).o(tr));
            let ih = inner.head();
            if GAIN_TAGS.contains(&ih) {
                with_gain!(inner, x => { let $d = WithSegment { inner: x, segment, transition_mode }; $body })
            } else if MOD_TAGS.contains(&ih) {
                with_mod!(inner, x => { let $d = WithSegment { inner: x, segment, transition_mode }; $body })
            } else if ih == "foci" {
                with_foci_sc!(inner, x => { let $d = WithSegment { inner: x, segment, transition_mode }; $body })
            } else {
                with_gstm_sc!($gains, inner, x => { let $d = WithSegment { inner: x, segment, transition_mode }; $body })
            }
        } else if h == "wloop" {
            let inner = s.at(1);
            let (loop_behavior, segment, transition_mode) = (lb(s.at(2)), seg(s.at(3)), s.at(4).o(tr));
            let ih = inner.head();
            if MOD_TAGS.contains(&ih) {
                with_mod!(inner, x => { let $d = WithLoopBehavior { inner: x, loop_behavior, segment, transition_mode }; $body })
            } else if ih == "foci" {
                with_foci_sc!(inner, x => { let $d = WithLoopBehavior { inner: x, loop_behavior, segment, transition_mode }; $body })
            } else {
                with_gstm_sc!($gains, inner, x => { let $d = WithLoopBehavior { inner: x, loop_behavior, segment, transition_mode }; $body })
            }
        } else {
            panic!("dg {h}")
        }
    }};
}

// ================================================================================================
// real SDK values -> spec text (for what `from_msg` rebuilds)

fn fb(x: f32) -> Sx {
    a(x.to_bits())
}
fn s_p3(p: &Point3) -> Sx {
    n("p", vec![fb(p.x), fb(p.y), fb(p.z)])
}
fn s_uv(p: &UnitVector3) -> Sx {
    n("p", vec![fb(p.x), fb(p.y), fb(p.z)])
}
fn s_ip(i: EmitIntensity, p: Phase) -> Sx {
    n("o", vec![a(i.0), a(p.0)])
}
fn s_cons(c: &EmissionConstraint) -> Sx {
    match c {
        EmissionConstraint::Normalize => n("norm", vec![]),
        EmissionConstraint::Multiply(v) => n("mul", vec![fb(*v)]),
        EmissionConstraint::Uniform(v) => n("uni", vec![a(v.0)]),
        EmissionConstraint::Clamp(x, y) => n("clamp", vec![a(x.0), a(y.0)]),
    }
}
fn s_holos(f: &[(Point3, Amplitude)]) -> Sx {
    lst(f.iter().map(|(p, am)| n("h", vec![s_p3(p), fb(am.pascal())])).collect())
}
fn s_sc(c: &SamplingConfig) -> Sx {
    match c {
        SamplingConfig::Division(d) => n("div", vec![a(d.get())]),
        SamplingConfig::Freq(f) => n("freq", vec![fb(f.hz())]),
        SamplingConfig::FreqNearest(f) => n("freqn", vec![fb(f.0.hz())]),
        SamplingConfig::Period(p) => n("per", vec![a(p.as_nanos())]),
        SamplingConfig::PeriodNearest(p) => n("pern", vec![a(p.0.as_nanos())]),
    }
}
fn s_tr(t: &TransitionMode) -> Sx {
    match t {
        TransitionMode::SyncIdx => n("sidx", vec![]),
        TransitionMode::SysTime(t) => n("sys", vec![a(t.sys_time())]),
        TransitionMode::GPIO(g) => n("gpio", vec![a(*g as u8)]),
        TransitionMode::Ext => n("ext", vec![]),
        TransitionMode::Immediate => n("imm", vec![]),
    }
}
fn s_lb(l: &LoopBehavior) -> Sx {
    match l {
        LoopBehavior::Infinite => n("inf", vec![]),
        LoopBehavior::Finite(r) => n("fin", vec![a(r.get())]),
    }
}
fn s_sine_opt(o: &SineOption) -> Sx {
    n("so", vec![s_sc(&o.sampling_config), a(o.intensity), a(o.offset), fb(o.phase.radian()), b(o.clamp)])
}
fn s_square_opt(o: &SquareOption) -> Sx {
    n("qo", vec![s_sc(&o.sampling_config), a(o.low), a(o.high), fb(o.duty)])
}
fn s_swap(s: &SwapSegment) -> Sx {
    let (k, sg, t) = match s {
        SwapSegment::Gain(s, t) => ("g", s, t),
        SwapSegment::Modulation(s, t) => ("m", s, t),
        SwapSegment::FociSTM(s, t) => ("f", s, t),
        SwapSegment::GainSTM(s, t) => ("s", s, t),
    };
    n("swap", vec![a(k), a(*sg as u8), s_tr(t)])
}
fn s_foci<const N: usize>(f: &FociSTM<N, Vec<ControlPoints<N>>, SamplingConfig>) -> Sx {
    n(
        "foci",
        vec![
            a(N),
            lst(f.foci
                .iter()
                .map(|c| n("cps", vec![lst(c.points.iter().map(|p| n("cp", vec![s_p3(&p.point), a(p.phase_offset.0)])).collect()), a(c.intensity.0)]))
                .collect()),
            s_sc(&f.config),
        ],
    )
}

fn err_kind(e: &AUTDProtoBufError) -> String {
    match e {
        AUTDProtoBufError::DataParseError => "parse".into(),
        AUTDProtoBufError::TryFromInt(_) => "int".into(),
        AUTDProtoBufError::UnknownEnumValue(_) => "enum".into(),
        AUTDProtoBufError::Status(_) => "status".into(),
        AUTDProtoBufError::AUTDDriverError(_) => "driver".into(),
        e => format!("other:{e:?}"),
    }
}
fn answer(r: Result<Sx, AUTDProtoBufError>) -> String {
    match r {
        Ok(s) => format!("ok {}", s.text()),
        Err(e) => format!("err {}", err_kind(&e)),
    }
}

// ================================================================================================
// prost messages -> Sx

fn m_p3(p: &pb::Point3) -> Sx {
    n("p", vec![fb(p.x), fb(p.y), fb(p.z)])
}
fn m_uv(p: &pb::UnitVector3) -> Sx {
    n("p", vec![fb(p.x), fb(p.y), fb(p.z)])
}
fn m_ei(x: &Option<pb::EmitIntensity>) -> Sx {
    opt(x.as_ref(), |v| a(v.value))
}
fn m_ph(x: &Option<pb::Phase>) -> Sx {
    opt(x.as_ref(), |v| a(v.value))
}
fn m_u32(x: &Option<u32>) -> Sx {
    opt(*x, a)
}
fn m_u64(x: &Option<u64>) -> Sx {
    opt(*x, a)
}
fn m_f32(x: &Option<f32>) -> Sx {
    opt(*x, fb)
}
fn m_bool(x: &Option<bool>) -> Sx {
    opt(*x, b)
}
fn m_sc(c: &pb::SamplingConfig) -> Sx {
    use pb::sampling_config::Variant as V;
    n(
        "sc",
        vec![opt(c.variant.as_ref(), |v| match v {
            V::Division(d) => n("div", vec![a(d.div)]),
            V::Freq(f) => n("freq", vec![fb(f.freq)]),
            V::FreqNearest(f) => n("freqn", vec![fb(f.freq)]),
            V::Period(p) => n("per", vec![a(p.ns)]),
            V::PeriodNearest(p) => n("pern", vec![a(p.ns)]),
            _ => n("unknown", vec![]),
        })],
    )
}
fn m_tr(t: &pb::TransitionMode) -> Sx {
    use pb::transition_mode::Mode as M;
    n(
        "tr",
        vec![opt(t.mode.as_ref(), |m| match m {
            M::SyncIdx(_) => n("sidx", vec![]),
            M::SysTime(t) => n("sys", vec![a(t.value)]),
            M::Gpio(g) => n("gpio", vec![a(g.value)]),
            M::Ext(_) => n("ext", vec![]),
            M::Immediate(_) => n("imm", vec![]),
            _ => n("unknown", vec![]),
        })],
    )
}
fn m_lb(l: &pb::LoopBehavior) -> Sx {
    use pb::loop_behavior::Variant as V;
    n(
        "lb",
        vec![opt(l.variant.as_ref(), |v| match v {
            V::Infinite(_) => n("inf", vec![]),
            V::Finite(f) => n("fin", vec![a(f.rep)]),
            _ => n("unknown", vec![]),
        })],
    )
}
fn m_cons(c: &pb::EmissionConstraint) -> Sx {
    use pb::emission_constraint::Variant as V;
    n(
        "c",
        vec![opt(c.variant.as_ref(), |v| match v {
            V::Normalize(_) => n("norm", vec![]),
            V::Multiply(m) => n("mul", vec![fb(m.value)]),
            V::Uniform(u) => n("uni", vec![m_ei(&u.value)]),
            V::Clamp(c) => n("clamp", vec![m_ei(&c.min), m_ei(&c.max)]),
            _ => n("unknown", vec![]),
        })],
    )
}
fn m_holos(h: &[pb::Holo]) -> Sx {
    lst(h.iter().map(|h| n("h", vec![opt(h.pos.as_ref(), m_p3), opt(h.amp.as_ref(), |x| fb(x.value))])).collect())
}
fn m_gain_v(g: &pb::gain::Gain) -> Sx {
    use pb::gain::Gain as G;
    let ipo = |i: &Option<pb::EmitIntensity>, p: &Option<pb::Phase>| n("o", vec![m_ei(i), m_ph(p)]);
    match g {
        G::Focus(f) => n("focus", vec![opt(f.pos.as_ref(), m_p3), opt(f.option.as_ref(), |o| ipo(&o.intensity, &o.phase_offset))]),
        G::Bessel(f) => n(
            "bessel",
            vec![
                opt(f.pos.as_ref(), m_p3),
                opt(f.dir.as_ref(), m_uv),
                opt(f.theta.as_ref(), |t| fb(t.rad)),
                opt(f.option.as_ref(), |o| ipo(&o.intensity, &o.phase_offset)),
            ],
        ),
        G::Plane(f) => n("plane", vec![opt(f.dir.as_ref(), m_uv), opt(f.option.as_ref(), |o| ipo(&o.intensity, &o.phase_offset))]),
        G::Uniform(u) => n("uniform", vec![m_ei(&u.intensity), m_ph(&u.phase)]),
        G::Null(_) => n("null", vec![]),
        G::Naive(x) => n("naive", vec![m_holos(&x.holo), opt(x.option.as_ref(), |o| n("no", vec![opt(o.constraint.as_ref(), m_cons)]))]),
        G::Gs(x) => n("gs", vec![m_holos(&x.holo), opt(x.option.as_ref(), |o| n("go", vec![opt(o.constraint.as_ref(), m_cons), m_u64(&o.repeat)]))]),
        G::Gspat(x) => n("gspat", vec![m_holos(&x.holo), opt(x.option.as_ref(), |o| n("go", vec![opt(o.constraint.as_ref(), m_cons), m_u64(&o.repeat)]))]),
        G::Lm(x) => n(
            "lm",
            vec![
                m_holos(&x.holo),
                opt(x.option.as_ref(), |o| {
                    n(
                        "lo",
                        vec![
                            opt(o.constraint.as_ref(), m_cons),
                            m_f32(&o.eps_1),
                            m_f32(&o.eps_2),
                            m_f32(&o.tau),
                            m_u64(&o.k_max),
                            lst(o.initial.iter().map(|x| fb(*x)).collect()),
                        ],
                    )
                }),
            ],
        ),
        G::Greedy(x) => n("greedy", vec![m_holos(&x.holo), opt(x.option.as_ref(), |o| n("gro", vec![opt(o.constraint.as_ref(), m_cons), m_u32(&o.phase_div)]))]),
        _ => n("unknown", vec![]),
    }
}
fn m_gain(g: &pb::Gain) -> Sx {
    n("gain", vec![opt(g.gain.as_ref(), m_gain_v)])
}
fn m_sine_opt(o: &pb::SineOption) -> Sx {
    n("so", vec![opt(o.config.as_ref(), m_sc), m_u32(&o.intensity), m_u32(&o.offset), opt(o.phase.as_ref(), |x| fb(x.rad)), m_bool(&o.clamp)])
}
fn m_square_opt(o: &pb::SquareOption) -> Sx {
    n("qo", vec![opt(o.config.as_ref(), m_sc), m_u32(&o.low), m_u32(&o.high), m_f32(&o.duty)])
}
fn m_mod_v(m: &pb::modulation::Modulation) -> Sx {
    use pb::modulation::Modulation as M;
    match m {
        M::Static(s) => n("static", vec![m_u32(&s.intensity)]),
        M::SineExact(s) => n("sine_e", vec![a(s.freq), opt(s.option.as_ref(), m_sine_opt)]),
        M::SineExactFloat(s) => n("sine_f", vec![fb(s.freq), opt(s.option.as_ref(), m_sine_opt)]),
        M::SineNearest(s) => n("sine_n", vec![fb(s.freq), opt(s.option.as_ref(), m_sine_opt)]),
        M::SquareExact(s) => n("sq_e", vec![a(s.freq), opt(s.option.as_ref(), m_square_opt)]),
        M::SquareExactFloat(s) => n("sq_f", vec![fb(s.freq), opt(s.option.as_ref(), m_square_opt)]),
        M::SquareNearest(s) => n("sq_n", vec![fb(s.freq), opt(s.option.as_ref(), m_square_opt)]),
        _ => n("unknown", vec![]),
    }
}
fn m_mod(m: &pb::Modulation) -> Sx {
    n("mod", vec![opt(m.modulation.as_ref(), m_mod_v)])
}
fn m_sil_v(c: &pb::silencer::Config) -> Sx {
    use pb::silencer::Config as C;
    match c {
        C::FixedUpdateRate(r) => n("rate", vec![a(r.value_intensity), a(r.value_phase)]),
        C::FixedCompletionSteps(s) => n("steps", vec![m_u32(&s.value_intensity), m_u32(&s.value_phase), m_bool(&s.strict_mode)]),
        C::FixedCompletionTime(s) => n("time", vec![m_u32(&s.value_intensity), m_u32(&s.value_phase), m_bool(&s.strict_mode)]),
        _ => n("unknown", vec![]),
    }
}
fn m_sil(s: &pb::Silencer) -> Sx {
    n("sil", vec![opt(s.config.as_ref(), m_sil_v)])
}
fn m_swap(s: &pb::SwapSegment) -> Sx {
    use pb::swap_segment::Variant as V;
    n(
        "swap",
        vec![opt(s.variant.as_ref(), |v| {
            let (k, sg, t) = match v {
                V::Gain(x) => ("g", x.segment, &x.transition_mode),
                V::Modulation(x) => ("m", x.segment, &x.transition_mode),
                V::FociStm(x) => ("f", x.segment, &x.transition_mode),
                V::GainStm(x) => ("s", x.segment, &x.transition_mode),
                _ => return n("unknown", vec![]),
            };
            n(k, vec![a(sg), opt(t.as_ref(), m_tr)])
        })],
    )
}
fn m_foci(f: &pb::FociStm) -> Sx {
    n(
        "foci",
        vec![
            lst(f.foci
                .iter()
                .map(|c| n("cps", vec![lst(c.points.iter().map(|p| n("cp", vec![opt(p.pos.as_ref(), m_p3), m_ph(&p.offset)])).collect()), m_ei(&c.intensity)]))
                .collect()),
            opt(f.sampling_config.as_ref(), m_sc),
        ],
    )
}
fn m_gstm(g: &pb::GainStm) -> Sx {
    n(
        "gstm",
        vec![
            lst(g.gains.iter().map(m_gain).collect()),
            opt(g.sampling_config.as_ref(), m_sc),
            opt(g.option.as_ref(), |o| n("gso", vec![opt(o.mode, a)])),
        ],
    )
}
fn m_dg_v(d: &pb::datagram::Datagram) -> Sx {
    use pb::datagram::Datagram as D;
    match d {
        D::Clear(_) => n("clear", vec![]),
        D::Synchronize(_) => n("sync", vec![]),
        D::ForceFan(f) => n("fan", vec![lst(f.value.iter().map(|x| b(*x)).collect())]),
        D::ReadsFpgaState(f) => n("reads", vec![lst(f.value.iter().map(|x| b(*x)).collect())]),
        D::Silencer(s) => m_sil(s),
        D::SwapSegment(s) => m_swap(s),
        D::Modulation(m) => m_mod(m),
        D::Gain(g) => m_gain(g),
        D::FociStm(f) => m_foci(f),
        D::GainStm(g) => m_gstm(g),
        D::WithSegment(w) => {
            use pb::with_segment::Inner as I;
            n(
                "wseg",
                vec![
                    opt(w.inner.as_ref(), |i| match i {
                        I::Gain(g) => m_gain(g),
                        I::Modulation(m) => m_mod(m),
                        I::FociStm(f) => m_foci(f),
                        I::GainStm(g) => m_gstm(g),
                        _ => n("unknown", vec![]),
                    }),
                    a(w.segment),
                    opt(w.transition_mode.as_ref(), m_tr),
                ],
            )
        }
        D::WithLoopBehavior(w) => {
            use pb::with_loop_behavior::Inner as I;
            n(
                "wloop",
                vec![
                    opt(w.inner.as_ref(), |i| match i {
                        I::Modulation(m) => m_mod(m),
                        I::FociStm(f) => m_foci(f),
                        I::GainStm(g) => m_gstm(g),
                        _ => n("unknown", vec![]),
                    }),
                    opt(w.loop_behavior.as_ref(), m_lb),
                    a(w.segment),
                    opt(w.transition_mode.as_ref(), m_tr),
                ],
            )
        }
        _ => n("unknown", vec![]),
    }
}
fn m_dg(d: &pb::Datagram) -> Sx {
    n("d", vec![opt(d.datagram.as_ref(), m_dg_v)])
}
fn m_tuple(t: &pb::DatagramTuple) -> Sx {
    n("tuple", vec![opt(t.first.as_ref(), m_dg), opt(t.second.as_ref(), m_dg)])
}
fn m_sopt(o: &pb::SenderOption) -> Sx {
    use pb::sender_option::Sleeper as S;
    n(
        "sopt",
        vec![
            a(o.send_interval_ns),
            a(o.receive_interval_ns),
            m_u64(&o.timeout_ns),
            a(o.parallel),
            opt(o.sleeper.as_ref(), |s| match s {
                S::Std(x) => n("std", vec![m_u32(&x.timer_resolution)]),
                S::Spin(x) => n("spin", vec![a(x.native_accuracy_ns), a(x.spin_strategy)]),
                S::Waitable(_) => n("wait", vec![]),
                S::Async(x) => n("async", vec![m_u32(&x.timer_resolution)]),
                _ => n("unknown", vec![]),
            }),
        ],
    )
}

// ================================================================================================
// Sx -> prost messages (mutated messages are built from text)

fn x_p3(s: &Sx) -> pb::Point3 {
    pb::Point3 { x: s.at(1).f(), y: s.at(2).f(), z: s.at(3).f() }
}
fn x_uv(s: &Sx) -> pb::UnitVector3 {
    pb::UnitVector3 { x: s.at(1).f(), y: s.at(2).f(), z: s.at(3).f() }
}
fn x_ei(s: &Sx) -> Option<pb::EmitIntensity> {
    s.o(|v| pb::EmitIntensity { value: v.u() as u32 })
}
fn x_ph(s: &Sx) -> Option<pb::Phase> {
    s.o(|v| pb::Phase { value: v.u() as u32 })
}
fn x_sc(s: &Sx) -> pb::SamplingConfig {
    use pb::sampling_config::*;
    pb::SamplingConfig {
        variant: s.at(1).o(|v| match v.head() {
            "div" => Variant::Division(Division { div: v.at(1).u() as u32 }),
            "freq" => Variant::Freq(Freq { freq: v.at(1).f() }),
            "freqn" => Variant::FreqNearest(FreqNearest { freq: v.at(1).f() }),
            "per" => Variant::Period(Period { ns: v.at(1).u() }),
            _ => Variant::PeriodNearest(PeriodNearest { ns: v.at(1).u() }),
        }),
    }
}
fn x_tr(s: &Sx) -> pb::TransitionMode {
    use pb::transition_mode::*;
    pb::TransitionMode {
        mode: s.at(1).o(|v| match v.head() {
            "sidx" => Mode::SyncIdx(SyncIdx {}),
            "sys" => Mode::SysTime(SysTime { value: v.at(1).u() }),
            "gpio" => Mode::Gpio(Gpio { value: v.at(1).i() as i32 }),
            "ext" => Mode::Ext(Ext {}),
            _ => Mode::Immediate(Immediate {}),
        }),
    }
}
fn x_lb(s: &Sx) -> pb::LoopBehavior {
    use pb::loop_behavior::*;
    pb::LoopBehavior {
        variant: s.at(1).o(|v| match v.head() {
            "inf" => Variant::Infinite(Infinite {}),
            _ => Variant::Finite(Finite { rep: v.at(1).u() as u32 }),
        }),
    }
}
fn x_cons(s: &Sx) -> pb::EmissionConstraint {
    use pb::emission_constraint::*;
    pb::EmissionConstraint {
        variant: s.at(1).o(|v| match v.head() {
            "norm" => Variant::Normalize(Normalize {}),
            "mul" => Variant::Multiply(Multiply { value: v.at(1).f() }),
            "uni" => Variant::Uniform(Uniform { value: x_ei(v.at(1)) }),
            _ => Variant::Clamp(Clamp { min: x_ei(v.at(1)), max: x_ei(v.at(2)) }),
        }),
    }
}
fn x_holos(s: &Sx) -> Vec<pb::Holo> {
    s.items().iter().map(|h| pb::Holo { pos: h.at(1).o(x_p3), amp: h.at(2).o(|v| pb::Amplitude { value: v.f() }) }).collect()
}
fn x_gain_v(s: &Sx) -> pb::gain::Gain {
    use pb::gain::Gain as G;
    match s.head() {
        "focus" => G::Focus(pb::Focus { pos: s.at(1).o(x_p3), option: s.at(2).o(|o| pb::FocusOption { intensity: x_ei(o.at(1)), phase_offset: x_ph(o.at(2)) }) }),
        "bessel" => G::Bessel(pb::Bessel {
            pos: s.at(1).o(x_p3),
            dir: s.at(2).o(x_uv),
            theta: s.at(3).o(|t| pb::Angle { rad: t.f() }),
            option: s.at(4).o(|o| pb::BesselOption { intensity: x_ei(o.at(1)), phase_offset: x_ph(o.at(2)) }),
        }),
        "plane" => G::Plane(pb::Plane { dir: s.at(1).o(x_uv), option: s.at(2).o(|o| pb::PlaneOption { intensity: x_ei(o.at(1)), phase_offset: x_ph(o.at(2)) }) }),
        "uniform" => G::Uniform(pb::Uniform { intensity: x_ei(s.at(1)), phase: x_ph(s.at(2)) }),
        "null" => G::Null(pb::Null {}),
        "naive" => G::Naive(pb::Naive { holo: x_holos(s.at(1)), option: s.at(2).o(|o| pb::NaiveOption { constraint: o.at(1).o(x_cons) }) }),
        "gs" => G::Gs(pb::Gs { holo: x_holos(s.at(1)), option: s.at(2).o(|o| pb::GsOption { constraint: o.at(1).o(x_cons), repeat: o.at(2).o(|v| v.u()) }) }),
        "gspat" => G::Gspat(pb::Gspat { holo: x_holos(s.at(1)), option: s.at(2).o(|o| pb::GspatOption { constraint: o.at(1).o(x_cons), repeat: o.at(2).o(|v| v.u()) }) }),
        "lm" => G::Lm(pb::Lm {
            holo: x_holos(s.at(1)),
            option: s.at(2).o(|o| pb::LmOption {
                constraint: o.at(1).o(x_cons),
                eps_1: o.at(2).o(|v| v.f()),
                eps_2: o.at(3).o(|v| v.f()),
                tau: o.at(4).o(|v| v.f()),
                k_max: o.at(5).o(|v| v.u()),
                initial: o.at(6).items().iter().map(|v| v.f()).collect(),
            }),
        }),
        _ => G::Greedy(pb::Greedy { holo: x_holos(s.at(1)), option: s.at(2).o(|o| pb::GreedyOption { constraint: o.at(1).o(x_cons), phase_div: o.at(2).o(|v| v.u() as u32) }) }),
    }
}
fn x_gain(s: &Sx) -> pb::Gain {
    pb::Gain { gain: s.at(1).o(x_gain_v) }
}
fn x_sine_opt(o: &Sx) -> pb::SineOption {
    pb::SineOption {
        config: o.at(1).o(x_sc),
        intensity: o.at(2).o(|v| v.u() as u32),
        offset: o.at(3).o(|v| v.u() as u32),
        phase: o.at(4).o(|v| pb::Angle { rad: v.f() }),
        clamp: o.at(5).o(|v| v.bool()),
    }
}
fn x_square_opt(o: &Sx) -> pb::SquareOption {
    pb::SquareOption { config: o.at(1).o(x_sc), low: o.at(2).o(|v| v.u() as u32), high: o.at(3).o(|v| v.u() as u32), duty: o.at(4).o(|v| v.f()) }
}
fn x_mod_v(s: &Sx) -> pb::modulation::Modulation {
    use pb::modulation::Modulation as M;
    match s.head() {
        "static" => M::Static(pb::Static { intensity: s.at(1).o(|v| v.u() as u32) }),
        "sine_e" => M::SineExact(pb::SineExact { freq: s.at(1).u() as u32, option: s.at(2).o(x_sine_opt) }),
        "sine_f" => M::SineExactFloat(pb::SineExactFloat { freq: s.at(1).f(), option: s.at(2).o(x_sine_opt) }),
        "sine_n" => M::SineNearest(pb::SineNearest { freq: s.at(1).f(), option: s.at(2).o(x_sine_opt) }),
        "sq_e" => M::SquareExact(pb::SquareExact { freq: s.at(1).u() as u32, option: s.at(2).o(x_square_opt) }),
        "sq_f" => M::SquareExactFloat(pb::SquareExactFloat { freq: s.at(1).f(), option: s.at(2).o(x_square_opt) }),
        _ => M::SquareNearest(pb::SquareNearest { freq: s.at(1).f(), option: s.at(2).o(x_square_opt) }),
    }
}
fn x_mod(s: &Sx) -> pb::Modulation {
    pb::Modulation { modulation: s.at(1).o(x_mod_v) }
}
fn x_sil_v(v: &Sx) -> pb::silencer::Config {
    use pb::silencer::*;
    match v.head() {
        "rate" => Config::FixedUpdateRate(FixedUpdateRate { value_intensity: v.at(1).u() as u32, value_phase: v.at(2).u() as u32 }),
        "steps" => Config::FixedCompletionSteps(FixedCompletionSteps {
            value_intensity: v.at(1).o(|x| x.u() as u32),
            value_phase: v.at(2).o(|x| x.u() as u32),
            strict_mode: v.at(3).o(|x| x.bool()),
        }),
        _ => Config::FixedCompletionTime(FixedCompletionTime {
            value_intensity: v.at(1).o(|x| x.u() as u32),
            value_phase: v.at(2).o(|x| x.u() as u32),
            strict_mode: v.at(3).o(|x| x.bool()),
        }),
    }
}
fn x_sil(s: &Sx) -> pb::Silencer {
    pb::Silencer { config: s.at(1).o(x_sil_v) }
}
fn x_swap(s: &Sx) -> pb::SwapSegment {
    use pb::swap_segment::*;
    pb::SwapSegment {
        variant: s.at(1).o(|v| {
            let (segment, transition_mode) = (v.at(1).i() as i32, v.at(2).o(x_tr));
            match v.head() {
                "g" => Variant::Gain(Gain { segment, transition_mode }),
                "m" => Variant::Modulation(Modulation { segment, transition_mode }),
                "f" => Variant::FociStm(FociStm { segment, transition_mode }),
                _ => Variant::GainStm(GainStm { segment, transition_mode }),
            }
        }),
    }
}
fn x_foci(s: &Sx) -> pb::FociStm {
    pb::FociStm {
        foci: s
            .at(1)
            .items()
            .iter()
            .map(|c| pb::ControlPoints {
                points: c.at(1).items().iter().map(|p| pb::ControlPoint { pos: p.at(1).o(x_p3), offset: x_ph(p.at(2)) }).collect(),
                intensity: x_ei(c.at(2)),
            })
            .collect(),
        sampling_config: s.at(2).o(x_sc),
    }
}
fn x_gstm(s: &Sx) -> pb::GainStm {
    pb::GainStm {
        gains: s.at(1).items().iter().map(x_gain).collect(),
        sampling_config: s.at(2).o(x_sc),
        option: s.at(3).o(|o| pb::GainStmOption { mode: o.at(1).o(|v| v.i() as i32) }),
    }
}
fn x_dg_v(s: &Sx) -> pb::datagram::Datagram {
    use pb::datagram::Datagram as D;
    match s.head() {
        "clear" => D::Clear(pb::Clear {}),
        "sync" => D::Synchronize(pb::Synchronize {}),
        "fan" => D::ForceFan(pb::ForceFan { value: flags(s.at(1)) }),
        "reads" => D::ReadsFpgaState(pb::ReadsFpgaState { value: flags(s.at(1)) }),
        "sil" => D::Silencer(x_sil(s)),
        "swap" => D::SwapSegment(x_swap(s)),
        "mod" => D::Modulation(x_mod(s)),
        "gain" => D::Gain(x_gain(s)),
        "foci" => D::FociStm(x_foci(s)),
        "gstm" => D::GainStm(x_gstm(s)),
        "wseg" => {
            use pb::with_segment::Inner as I;
            D::WithSegment(pb::WithSegment {
                inner: s.at(1).o(|i| match i.head() {
                    "gain" => I::Gain(x_gain(i)),
                    "mod" => I::Modulation(x_mod(i)),
                    "foci" => I::FociStm(x_foci(i)),
                    _ => I::GainStm(x_gstm(i)),
                }),
                segment: s.at(2).i() as i32,
                transition_mode: s.at(3).o(x_tr),
            })
        }
        "wloop" => {
            use pb::with_loop_behavior::Inner as I;
            D::WithLoopBehavior(pb::WithLoopBehavior {
                inner: s.at(1).o(|i| match i.head() {
                    "mod" => I::Modulation(x_mod(i)),
                    "foci" => I::FociStm(x_foci(i)),
                    _ => I::GainStm(x_gstm(i)),
                }),
                loop_behavior: s.at(2).o(x_lb),
                segment: s.at(3).i() as i32,
                transition_mode: s.at(4).o(x_tr),
            })
        }
        h => panic!("mdg {h}"),
    }
}
fn x_dg(s: &Sx) -> pb::Datagram {
    pb::Datagram { datagram: s.at(1).o(x_dg_v) }
}
fn x_tuple(s: &Sx) -> pb::DatagramTuple {
    pb::DatagramTuple { first: s.at(1).o(x_dg), second: s.at(2).o(x_dg) }
}
fn x_sopt(s: &Sx) -> pb::SenderOption {
    use pb::sender_option::Sleeper as S;
    pb::SenderOption {
        send_interval_ns: s.at(1).u(),
        receive_interval_ns: s.at(2).u(),
        timeout_ns: s.at(3).o(|v| v.u()),
        parallel: s.at(4).i() as i32,
        sleeper: s.at(5).o(|v| match v.head() {
            "std" => S::Std(pb::StdSleeper { timer_resolution: v.at(1).o(|x| x.u() as u32) }),
            "spin" => S::Spin(pb::SpinSleeper { native_accuracy_ns: v.at(1).u() as u32, spin_strategy: v.at(2).i() as i32 }),
            "wait" => S::Waitable(pb::WaitableSleeper {}),
            _ => S::Async(pb::AsyncSleeper { timer_resolution: v.at(1).o(|x| x.u() as u32) }),
        }),
    }
}
fn x_send(s: &Sx) -> pb::SendRequestLightweight {
    pb::SendRequestLightweight { datagram: s.at(1).o(x_tuple), sender_option: s.at(2).o(x_sopt) }
}
fn x_group(s: &Sx) -> pb::GroupSendRequestLightweight {
    pb::GroupSendRequestLightweight {
        keys: s.at(1).items().iter().map(|k| k.i() as i32).collect(),
        datagrams: s.at(2).items().iter().map(x_tuple).collect(),
        sender_option: s.at(3).o(x_sopt),
    }
}

// ================================================================================================
// the public `FromMessage` impls, one by one (`leaf` lines)

fn leaf_gain(v: &Sx) -> String {
    use pb::gain::Gain as G;
    match x_gain_v(v) {
        G::Focus(m) => answer(Focus::from_msg(m).map(|g| n("focus", vec![s_p3(&g.pos), s_ip(g.option.intensity, g.option.phase_offset)]))),
        G::Bessel(m) => answer(
            Bessel::from_msg(m).map(|g| n("bessel", vec![s_p3(&g.pos), s_uv(&g.dir), fb(g.theta.radian()), s_ip(g.option.intensity, g.option.phase_offset)])),
        ),
        G::Plane(m) => answer(Plane::from_msg(m).map(|g| n("plane", vec![s_uv(&g.dir), s_ip(g.option.intensity, g.option.phase_offset)]))),
        G::Uniform(m) => answer(Uniform::from_msg(m).map(|g| n("uniform", vec![a(g.intensity.0), a(g.phase.0)]))),
        G::Null(m) => answer(Null::from_msg(m).map(|_| n("null", vec![]))),
        G::Naive(m) => answer(Naive::<Sphere, NB>::from_msg(m).map(|g| n("naive", vec![s_holos(&g.foci), s_cons(&g.option.constraint)]))),
        G::Gs(m) => answer(GS::<Sphere, NB>::from_msg(m).map(|g| n("gs", vec![s_holos(&g.foci), s_cons(&g.option.constraint), a(g.option.repeat.get())]))),
        G::Gspat(m) => answer(GSPAT::<Sphere, NB>::from_msg(m).map(|g| n("gspat", vec![s_holos(&g.foci), s_cons(&g.option.constraint), a(g.option.repeat.get())]))),
        G::Lm(m) => answer(LM::<Sphere, NB>::from_msg(m).map(|g| {
            n(
                "lm",
                vec![
                    s_holos(&g.foci),
                    s_cons(&g.option.constraint),
                    fb(g.option.eps_1),
                    fb(g.option.eps_2),
                    fb(g.option.tau),
                    a(g.option.k_max.get()),
                    lst(g.option.initial.iter().map(|x| fb(*x)).collect()),
                ],
            )
        })),
        G::Greedy(m) => answer(Greedy::<Sphere>::from_msg(m).map(|g| n("greedy", vec![s_holos(&g.foci), s_cons(&g.option.constraint), a(g.option.phase_div.get())]))),
        _ => "unknown".into(),
    }
}

fn leaf_mod(v: &Sx) -> String {
    use pb::modulation::Modulation as M;
    match x_mod_v(v) {
        M::Static(m) => answer(Static::from_msg(m).map(|x| n("static", vec![a(x.intensity)]))),
        M::SineExact(m) => answer(Sine::<Freq<u32>>::from_msg(m).map(|x| n("sine_e", vec![a(x.freq.hz()), s_sine_opt(&x.option)]))),
        M::SineExactFloat(m) => answer(Sine::<Freq<f32>>::from_msg(m).map(|x| n("sine_f", vec![fb(x.freq.hz()), s_sine_opt(&x.option)]))),
        M::SineNearest(m) => {
            answer(Sine::<autd3::modulation::sampling_mode::Nearest>::from_msg(m).map(|x| n("sine_n", vec![fb(x.freq.0.hz()), s_sine_opt(&x.option)])))
        }
        M::SquareExact(m) => answer(Square::<Freq<u32>>::from_msg(m).map(|x| n("sq_e", vec![a(x.freq.hz()), s_square_opt(&x.option)]))),
        M::SquareExactFloat(m) => answer(Square::<Freq<f32>>::from_msg(m).map(|x| n("sq_f", vec![fb(x.freq.hz()), s_square_opt(&x.option)]))),
        M::SquareNearest(m) => {
            answer(Square::<autd3::modulation::sampling_mode::Nearest>::from_msg(m).map(|x| n("sq_n", vec![fb(x.freq.0.hz()), s_square_opt(&x.option)])))
        }
        _ => "unknown".into(),
    }
}

fn leaf_sil(v: &Sx) -> String {
    use pb::silencer::Config as C;
    match x_sil_v(v) {
        C::FixedUpdateRate(m) => answer(FixedUpdateRate::from_msg(m).map(|x| n("rate", vec![a(x.intensity.get()), a(x.phase.get())]))),
        C::FixedCompletionSteps(m) => answer(FixedCompletionSteps::from_msg(m).map(|x| n("steps", vec![a(x.intensity.get()), a(x.phase.get()), b(x.strict_mode)]))),
        C::FixedCompletionTime(m) => {
            answer(FixedCompletionTime::from_msg(m).map(|x| n("time", vec![a(x.intensity.as_nanos()), a(x.phase.as_nanos()), b(x.strict_mode)])))
        }
        _ => "unknown".into(),
    }
}

fn leaf_foci(nn: u64, v: &Sx) -> String {
    let m = x_foci(v);
    macro_rules! go {
        ($n:literal) => {
            answer(FociSTM::<$n, Vec<ControlPoints<$n>>, SamplingConfig>::from_msg(m).map(|f| s_foci(&f)))
        };
    }
    match nn {
        1 => go!(1),
        2 => go!(2),
        3 => go!(3),
        4 => go!(4),
        5 => go!(5),
        6 => go!(6),
        7 => go!(7),
        _ => go!(8),
    }
}

/// first identifier of a `Debug` rendering, lower-cased (`Focus { .. }` ↦ `focus`)
fn debug_kind(s: &str) -> String {
    s.chars().take_while(|c| c.is_alphanumeric()).collect::<String>().to_lowercase()
}

fn leaf_gstm(v: &Sx) -> String {
    answer(GainSTM::<Vec<BoxedGain>, SamplingConfig>::from_msg(x_gstm(v)).map(|g| {
        n(
            "gstm",
            vec![lst(g.gains.iter().map(|x| a(debug_kind(&format!("{x:?}")))).collect()), s_sc(&g.config), a(g.option.mode as u8)],
        )
    }))
}

type DynSleep = Box<dyn autd3::r#async::controller::AsyncSleep + Send + Sync>;

fn dbg_opt_num(s: &str) -> Sx {
    match s.find("Some(") {
        Some(i) => a(s[i + 5..].chars().take_while(|c| c.is_ascii_digit()).collect::<String>()),
        None => none(),
    }
}
fn s_dyn_sleeper(d: &str) -> Sx {
    if d.starts_with("StdSleeper") {
        n("std", vec![dbg_opt_num(d)])
    } else if d.starts_with("AsyncSleeper") {
        n("async", vec![dbg_opt_num(d)])
    } else if d.starts_with("SpinSleeper") {
        let acc: String = d.split("native_accuracy_ns: ").nth(1).unwrap_or("").chars().take_while(|c| c.is_ascii_digit()).collect();
        n("spin", vec![a(acc), a(if d.contains("SpinLoopHint") { 1 } else { 0 })])
    } else {
        n("unknown", vec![])
    }
}
fn leaf_sopt(v: &Sx) -> String {
    answer(autd3::controller::SenderOption::<DynSleep>::from_msg(x_sopt(v)).map(|o| {
        n(
            "sopt",
            vec![
                a(o.send_interval.as_nanos()),
                a(o.receive_interval.as_nanos()),
                opt(o.timeout, |t| a(t.as_nanos())),
                a(o.parallel as u8),
                s_dyn_sleeper(&format!("{:?}", o.sleeper)),
            ],
        )
    }))
}

/// `kind` as written on the op line
fn leaf(kind: &str, v: &Sx) -> String {
    let r = guarded(|| match kind {
        "gain" => leaf_gain(v),
        "mod" => leaf_mod(v),
        "sil" => leaf_sil(v),
        "swap" => answer(SwapSegment::from_msg(x_swap(v)).map(|s| s_swap(&s))),
        "gstm" => leaf_gstm(v),
        "sc" => answer(SamplingConfig::from_msg(x_sc(v)).map(|c| s_sc(&c))),
        "tr" => answer(TransitionMode::from_msg(x_tr(v)).map(|t| s_tr(&t))),
        "lb" => answer(LoopBehavior::from_msg(x_lb(v)).map(|l| s_lb(&l))),
        "sopt" => leaf_sopt(v),
        k if k.starts_with("foci ") => leaf_foci(k[5..].parse().unwrap(), v),
        k => panic!("leaf kind {k}"),
    });
    r.unwrap_or_else(|_| "panic".into())
}

// ================================================================================================
// SenderOption on the client side

fn par_mode(v: u64) -> autd3::controller::ParallelMode {
    match v {
        0 => autd3::controller::ParallelMode::Auto,
        1 => autd3::controller::ParallelMode::On,
        _ => autd3::controller::ParallelMode::Off,
    }
}
fn spin_strategy(v: u64) -> autd3::controller::SpinStrategy {
    if v == 0 { autd3::controller::SpinStrategy::YieldThread } else { autd3::controller::SpinStrategy::SpinLoopHint }
}
fn sopt_with<S: std::fmt::Debug>(s: &Sx, sleeper: S) -> autd3::controller::SenderOption<S> {
    autd3::controller::SenderOption {
        send_interval: Duration::from_nanos(s.at(1).u()),
        receive_interval: Duration::from_nanos(s.at(2).u()),
        timeout: s.at(3).o(|t| Duration::from_nanos(t.u())),
        parallel: par_mode(s.at(4).u()),
        sleeper,
    }
}
fn std_sleeper(s: &Sx) -> autd3::controller::StdSleeper {
    autd3::controller::StdSleeper { timer_resolution: s.at(1).o(|r| NonZeroU32::new(r.u() as u32).unwrap()) }
}
fn async_sleeper(s: &Sx) -> autd3::r#async::controller::AsyncSleeper {
    autd3::r#async::controller::AsyncSleeper { timer_resolution: s.at(1).o(|r| NonZeroU32::new(r.u() as u32).unwrap()) }
}
fn spin_sleeper(s: &Sx) -> autd3::controller::SpinSleeper {
    autd3::controller::SpinSleeper::new(s.at(1).u() as u32).with_spin_strategy(spin_strategy(s.at(2).u()))
}
/// the client's `From<&SenderOption<S>> for pb::SenderOption`
fn sopt_to_msg(s: &Sx) -> pb::SenderOption {
    let sl = s.at(5);
    match sl.head() {
        "std" => pb::SenderOption::from(&sopt_with(s, std_sleeper(sl))),
        "spin" => pb::SenderOption::from(&sopt_with(s, spin_sleeper(sl))),
        _ => pb::SenderOption::from(&sopt_with(s, async_sleeper(sl))),
    }
}
fn sopt_dyn(s: &Sx) -> autd3::controller::SenderOption<DynSleep> {
    let sl = s.at(5);
    let sleeper: DynSleep = match sl.head() {
        "std" => Box::new(std_sleeper(sl)),
        "spin" => Box::new(spin_sleeper(sl)),
        _ => Box::new(async_sleeper(sl)),
    };
    sopt_with(s, sleeper)
}

// ================================================================================================
// client conversion of a whole tuple (`tomsg` lines)

pub fn devices(nn: usize) -> Vec<AUTD3<UnitQuaternion>> {
    (0..nn).map(|i| AUTD3 { pos: Point3::new(i as f32 * 192.0, 0., 0.), rot: UnitQuaternion::identity() }).collect()
}
pub fn geometry(nn: usize) -> Geometry {
    Geometry::new(devices(nn).into_iter().map(|d| d.into()).collect())
}

/// does this device travel through `Geometry -> message -> Geometry` bit for bit (rotation and all transducers)?
fn pose_is_stable(d: AUTD3<UnitQuaternion>) -> bool {
    let g = Geometry::new(vec![d.into()]);
    let Ok(g2) = Geometry::from_msg((&g).into()) else { return false };
    let bits = |g: &Geometry| -> Vec<u32> {
        let d = &g[0];
        let r = d.rotation();
        let mut v = vec![r.w.to_bits(), r.i.to_bits(), r.j.to_bits(), r.k.to_bits()];
        for t in d.iter() {
            let p = t.position();
            v.extend([p.x.to_bits(), p.y.to_bits(), p.z.to_bits()]);
        }
        v
    };
    bits(&g) == bits(&g2)
}

/// Geometry variants of the two worlds (the client's geometry is what `open` carries to the server, which rebuilds its
/// controller from it: server/mod.rs `open`).
///   0: devices side by side, identity rotation, default sound speed;
///   1: every device rotated about all three axes and shifted in y and z. The rotations are drawn (seeded) until the
///      quaternion survives the message round trip bit for bit - the decoder re-normalises it, C18 -, so that the
///      server's rebuilt device is exactly the client's and frames can be compared bit for bit;
///   2: variant 1 with a different, non-default sound speed on every device;
///   3: variant 0 with a different, non-default sound speed on every device (350, 353, … m/s; default 340 m/s).
pub fn devices_v(nn: usize, gv: usize) -> Vec<Device> {
    let mut r = Rng::new(0xC20_6E0 + gv as u64);
    (0..nn)
        .map(|i| {
            if gv == 0 || gv == 3 {
                let mut d: Device = AUTD3 { pos: Point3::new(i as f32 * 192.0, 0., 0.), rot: UnitQuaternion::identity() }.into();
                if gv == 3 {
                    d.sound_speed = (350.0 + 3.0 * i as f32) * 1000.0;
                }
                return d;
            }
            let pos = Point3::new(i as f32 * 192.0 + 3.5, 10.0 * i as f32 - 4.25, 7.75 * i as f32 + 1.5);
            let mut found = None;
            for _ in 0..10_000 {
                let ang = |r: &mut Rng| (r.below(6_283_186) as f32 - 3_141_593.0) / 1_000_000.0;
                let rot = UnitQuaternion::from_euler_angles(ang(&mut r) * 0.2, ang(&mut r) * 0.2, ang(&mut r));
                if rot != UnitQuaternion::identity() && pose_is_stable(AUTD3 { pos, rot }) {
                    found = Some(rot);
                    break;
                }
            }
            let mut d: Device = AUTD3 { pos, rot: found.expect("no stable rotation found") }.into();
            if gv == 2 {
                d.sound_speed = (350.0 + 3.0 * i as f32) * 1000.0; // mm/s (default: 340e3)
            }
            d
        })
        .collect()
}
pub fn geometry_v(nn: usize, gv: usize) -> Geometry {
    Geometry::new(devices_v(nn, gv))
}
/// the geometry message of `open`, as text (for replays): `(open (l (autd3 (p X Y Z) (q W I J K) SS)*))`, f32 as bit patterns
fn open_text(nn: usize, gv: usize) -> String {
    let m: pb::Geometry = (&geometry_v(nn, gv)).into();
    let devs = m
        .devices
        .iter()
        .map(|d| {
            let p = d.pos.clone().unwrap();
            let q = d.rot.clone().unwrap();
            n("autd3", vec![n("p", vec![fb(p.x), fb(p.y), fb(p.z)]), n("q", vec![fb(q.w), fb(q.x), fb(q.y), fb(q.z)]), fb(d.sound_speed.unwrap())])
        })
        .collect();
    n("open", vec![lst(devs)]).text()
}

/// `lightweight::Datagram::into_lightweight` for a single datagram (the real client entry point)
fn client_single(d: &Sx, geo: &Geometry) -> Result<pb::DatagramTuple, AUTDProtoBufError> {
    with_dg!(gstm_lw_gains, d, x => into_lw(x, geo))
}
/// `DatagramLightweight::into_datagram_lightweight(Some(geometry))`
fn client_datagram(d: &Sx, geo: &Geometry) -> Result<pb::Datagram, AUTDProtoBufError> {
    use pb::DatagramLightweight;
    with_dg!(gstm_lw_gains, d, x => x.into_datagram_lightweight(Some(geo)))
}
/// the `(T1, T2)` impl of `lightweight::Datagram`, statically typed, for every (modulation, gain) pair
fn client_pair_typed(ma: &Sx, gb: &Sx, geo: &Geometry) -> Result<pb::DatagramTuple, AUTDProtoBufError> {
    with_mod!(ma, x => with_gain!(gb, y => into_lw((x, y), geo)))
}
fn client_tuple(t: &Sx, geo: &Geometry) -> Result<pb::DatagramTuple, AUTDProtoBufError> {
    if t.head() == "t1" {
        client_single(t.at(1), geo)
    } else if MOD_TAGS.contains(&t.at(1).head()) && GAIN_TAGS.contains(&t.at(2).head()) {
        client_pair_typed(t.at(1), t.at(2), geo)
    } else {
        Ok(pb::DatagramTuple { first: Some(client_datagram(t.at(1), geo)?), second: Some(client_datagram(t.at(2), geo)?) })
    }
}
fn tomsg_answer(t: &Sx, geo: &Geometry) -> String {
    match guarded(|| client_tuple(t, geo)) {
        Ok(r) => answer(r.map(|m| m_tuple(&m))),
        Err(_) => "panic".into(),
    }
}

// ================================================================================================
// worlds: a recording link with real firmware emulators behind it

pub struct Rec {
    pub cpus: Vec<CPUEmulator>,
    pub fh: u64,
    pub frames: usize,
    pub total: u64,
    pub open: bool,
    /// type byte of the firmware-information request in the last frame (0 = the last frame was none): all emulators
    /// answer every type with the same two bytes (0xA3 / 0x00), so the link rewrites the answer of device i to
    /// `0x10·type + i` - a mixed-up version kind or device index then shows in `firmware_version()`
    pub firm: u8,
    /// number of `receive` calls after each `send` that do not deliver the acknowledgement (delayed-ack mode)
    pub hold: usize,
    pub pending: usize,
    /// `open` / `close` calls seen by the link
    pub opens: usize,
    pub closes: usize,
}
#[derive(Clone)]
pub struct RecLink(pub Arc<Mutex<Rec>>);

fn new_rec() -> Arc<Mutex<Rec>> {
    Arc::new(Mutex::new(Rec { cpus: vec![], fh: 0, frames: 0, total: 0, open: false, firm: 0, hold: 0, pending: 0, opens: 0, closes: 0 }))
}

#[autd3_core::async_trait]
impl AsyncLink for RecLink {
    async fn open(&mut self, geometry: &Geometry) -> Result<(), LinkError> {
        let mut r = self.0.lock().unwrap_or_else(|e| e.into_inner());
        r.cpus = geometry
            .iter()
            .enumerate()
            .map(|(i, d)| {
                let mut c = CPUEmulator::new(i, d.num_transducers());
                c.update_with_sys_time(DcSysTime::ZERO);
                c
            })
            .collect();
        r.open = true;
        r.opens += 1;
        r.firm = 0;
        r.pending = 0;
        Ok(())
    }
    async fn close(&mut self) -> Result<(), LinkError> {
        let mut r = self.0.lock().unwrap_or_else(|e| e.into_inner());
        r.open = false;
        r.closes += 1;
        Ok(())
    }
    async fn send(&mut self, tx: &[TxMessage]) -> Result<(), LinkError> {
        let mut r = self.0.lock().unwrap_or_else(|e| e.into_inner());
        r.frames += 1;
        r.total += 1;
        let mut bytes = r.fh.to_le_bytes().to_vec();
        for t in tx {
            bytes.extend_from_slice(t.as_bytes());
        }
        r.fh = fnv64(&bytes);
        for c in r.cpus.iter_mut() {
            c.send(tx);
        }
        r.firm = match tx.first().map(|t| t.payload()) {
            Some(p) if p[0] == 0x03 && (1..=5).contains(&p[1]) => p[1],
            _ => 0,
        };
        r.pending = r.hold;
        Ok(())
    }
    async fn receive(&mut self, rx: &mut [RxMessage]) -> Result<(), LinkError> {
        let mut r = self.0.lock().unwrap_or_else(|e| e.into_inner());
        // the clock is a function of the number of frames seen so far: identical in both worlds
        let t = DcSysTime::ZERO + Duration::from_micros(500 * r.total);
        let withheld = r.pending > 0;
        if withheld {
            r.pending -= 1;
        }
        let firm = r.firm;
        for c in r.cpus.iter_mut() {
            c.update_with_sys_time(t);
            if withheld {
                continue; // the device has processed the frame, the acknowledgement has not arrived yet
            }
            rx[c.idx()] = c.rx();
            if firm != 0 {
                rx[c.idx()] = RxMessage::new(0x10 * firm + c.idx() as u8, c.rx().ack());
            }
        }
        Ok(())
    }
    fn is_open(&self) -> bool {
        self.0.lock().unwrap_or_else(|e| e.into_inner()).open
    }
}

type LinkFn = Box<dyn Fn() -> Result<RecLink, LinkError> + Send + Sync>;

#[derive(Clone, Debug, PartialEq)]
pub struct Outcome {
    /// `ok` | `resp-err <message>` | `status <kind>` | `panic <message>`
    pub status: String,
    pub frames: usize,
    pub fh: u64,
    pub obs: String,
}
impl Outcome {
    fn text(&self) -> String {
        format!("{} N={} F={:016x} O={}", self.status, self.frames, self.fh, fnv64(self.obs.as_bytes()))
    }
    fn class(&self) -> &str {
        self.status.split(' ').next().unwrap_or("")
    }
}

fn begin(rec: &Arc<Mutex<Rec>>) {
    let mut r = rec.lock().unwrap_or_else(|e| e.into_inner());
    r.fh = 0;
    r.frames = 0;
}
fn end(rec: &Arc<Mutex<Rec>>, status: String) -> Outcome {
    let r = rec.lock().unwrap_or_else(|e| e.into_inner());
    let obs = r.cpus.iter().map(crate::fwc::obs_hash).collect::<Vec<_>>().join(" ");
    Outcome { status, frames: r.frames, fh: r.fh, obs }
}

fn status_kind(s: &tonic::Status) -> String {
    let m = s.message();
    if m.starts_with("Failed to parse data") {
        "parse".into()
    } else if m.starts_with("out of range integral") {
        "int".into()
    } else if m.starts_with("unknown enumeration value") {
        "enum".into()
    } else if m.contains("WaitableSleeper") {
        "status".into()
    } else {
        format!("other:{m}")
    }
}

/// `panic …` when the conversion code aborted; `emu-panic …` when the firmware emulator behind the link did (its own
/// known findings, C19: the message had been parsed and the datagram was on its way)
fn panic_status(p: &str) -> String {
    let file = p.rsplit(" @ ").next().unwrap_or("");
    if file.starts_with("traits/") || file.starts_with("lightweight/") { format!("panic {p}") } else { format!("emu-panic {p}") }
}

pub struct ServerWorld {
    pub rec: Arc<Mutex<Rec>>,
    pub srv: LightweightServer<RecLink, LinkFn>,
    pub n: usize,
}
impl ServerWorld {
    pub fn new(rt: &tokio::runtime::Runtime, nn: usize) -> Self {
        Self::new_v(rt, nn, 0)
    }
    pub fn new_v(rt: &tokio::runtime::Runtime, nn: usize, gv: usize) -> Self {
        let rec = new_rec();
        let link = RecLink(rec.clone());
        let f: LinkFn = Box::new(move || Ok(link.clone()));
        let srv = LightweightServer::new(f);
        let geo = geometry_v(nn, gv);
        let r = rt
            .block_on(srv.open(tonic::Request::new(pb::OpenRequestLightweight { geometry: Some((&geo).into()), sender_option: None })))
            .expect("open")
            .into_inner();
        assert!(!r.err, "server open: {}", r.msg);
        ServerWorld { rec, srv, n: nn }
    }
    fn finish(&self, r: Result<Result<tonic::Response<pb::SendResponseLightweight>, tonic::Status>, String>) -> Outcome {
        let status = match r {
            Ok(Ok(resp)) => {
                let resp = resp.into_inner();
                if resp.err { format!("resp-err {}", resp.msg) } else { "ok".into() }
            }
            Ok(Err(st)) => format!("status {}", status_kind(&st)),
            Err(p) => panic_status(&p),
        };
        end(&self.rec, status)
    }
    pub fn send(&self, rt: &tokio::runtime::Runtime, req: pb::SendRequestLightweight) -> Outcome {
        begin(&self.rec);
        let r = guarded(|| rt.block_on(self.srv.send(tonic::Request::new(req))));
        self.finish(r)
    }
    pub fn group_send(&self, rt: &tokio::runtime::Runtime, req: pb::GroupSendRequestLightweight) -> Outcome {
        begin(&self.rec);
        let r = guarded(|| rt.block_on(self.srv.group_send(tonic::Request::new(req))));
        self.finish(r)
    }
    /// a server nobody has opened yet
    pub fn unopened() -> Self {
        let rec = new_rec();
        let link = RecLink(rec.clone());
        let f: LinkFn = Box::new(move || Ok(link.clone()));
        ServerWorld { rec, srv: LightweightServer::new(f), n: 0 }
    }
    pub fn open(&self, rt: &tokio::runtime::Runtime, req: pb::OpenRequestLightweight) -> Outcome {
        begin(&self.rec);
        let r = guarded(|| rt.block_on(self.srv.open(tonic::Request::new(req))));
        self.finish(r)
    }
    pub fn close(&self, rt: &tokio::runtime::Runtime) -> Outcome {
        begin(&self.rec);
        let r = guarded(|| rt.block_on(self.srv.close(tonic::Request::new(pb::CloseRequestLightweight {}))));
        self.finish(r)
    }
    /// `fpga_state` RPC, decoded with the client's `from_msg`: (value as text, outcome)
    pub fn fpga_state(&self, rt: &tokio::runtime::Runtime) -> (String, Outcome) {
        begin(&self.rec);
        let r = guarded(|| rt.block_on(self.srv.fpga_state(tonic::Request::new(pb::FpgaStateRequestLightweight {}))));
        let (val, status) = match r {
            Ok(Ok(resp)) => {
                let resp = resp.into_inner();
                if resp.err {
                    ("-".to_string(), format!("resp-err {}", resp.msg))
                } else {
                    match guarded(|| Vec::<Option<autd3_driver::firmware::fpga::FPGAState>>::from_msg(resp)) {
                        Ok(Ok(v)) => (fpga_state_text(&v), "ok".to_string()),
                        Ok(Err(e)) => ("-".to_string(), format!("client-err {}", err_kind(&e))),
                        Err(p) => ("-".to_string(), panic_status(&p)),
                    }
                }
            }
            Ok(Err(st)) => ("-".to_string(), format!("status {}", status_kind(&st))),
            Err(p) => ("-".to_string(), panic_status(&p)),
        };
        (val, end(&self.rec, status))
    }
    /// `firmware_version` RPC, decoded with the client's `from_msg`
    pub fn firmware_version(&self, rt: &tokio::runtime::Runtime) -> (String, Outcome) {
        begin(&self.rec);
        let r = guarded(|| rt.block_on(self.srv.firmware_version(tonic::Request::new(pb::FirmwareVersionRequestLightweight {}))));
        let (val, status) = match r {
            Ok(Ok(resp)) => {
                let resp = resp.into_inner();
                if resp.err {
                    ("-".to_string(), format!("resp-err {}", resp.msg))
                } else {
                    match guarded(|| Vec::<autd3_driver::firmware::version::FirmwareVersion>::from_msg(resp)) {
                        Ok(Ok(v)) => (version_text(&v), "ok".to_string()),
                        Ok(Err(e)) => ("-".to_string(), format!("client-err {}", err_kind(&e))),
                        Err(p) => ("-".to_string(), panic_status(&p)),
                    }
                }
            }
            Ok(Err(st)) => ("-".to_string(), format!("status {}", status_kind(&st))),
            Err(p) => ("-".to_string(), panic_status(&p)),
        };
        (val, end(&self.rec, status))
    }
}

fn fpga_state_text(v: &[Option<autd3_driver::firmware::fpga::FPGAState>]) -> String {
    v.iter().map(|s| s.map(|s| format!("{:02x}", s.state())).unwrap_or("~".into())).collect::<Vec<_>>().join(",")
}
fn version_text(v: &[autd3_driver::firmware::version::FirmwareVersion]) -> String {
    v.iter()
        .map(|f| format!("{}:cpu={:02x}.{:02x}:fpga={:02x}.{:02x}:fn={:02x}", f.idx, f.cpu.major.0, f.cpu.minor.0, f.fpga.major.0, f.fpga.minor.0, f.fpga.function_bits))
        .collect::<Vec<_>>()
        .join(",")
}

type Ctl = autd3::r#async::Controller<RecLink>;

async fn send_direct<D>(ctl: &mut Ctl, d: D, so: Option<&Sx>) -> Result<(), String>
where
    D: autd3_core::datagram::Datagram,
    AUTDDriverError: From<D::Error>,
    D::G: autd3_driver::firmware::operation::OperationGenerator,
    AUTDDriverError: From<<<D::G as autd3_driver::firmware::operation::OperationGenerator>::O1 as autd3_core::datagram::Operation>::Error>
        + From<<<D::G as autd3_driver::firmware::operation::OperationGenerator>::O2 as autd3_core::datagram::Operation>::Error>,
{
    match so {
        None => ctl.send(d).await.map_err(|e| e.to_string()),
        Some(s) => ctl.sender(sopt_dyn(s)).send(d).await.map_err(|e| e.to_string()),
    }
}

/// what `NullDatagram` of the server is: no operation at all
#[derive(Debug)]
struct NullDg;
struct NullGen;
impl autd3_driver::firmware::operation::OperationGenerator for NullGen {
    type O1 = autd3_core::datagram::NullOp;
    type O2 = autd3_core::datagram::NullOp;
    fn generate(&mut self, _: &Device) -> (Self::O1, Self::O2) {
        (autd3_core::datagram::NullOp, autd3_core::datagram::NullOp)
    }
}
impl autd3_core::datagram::Datagram for NullDg {
    type G = NullGen;
    type Error = std::convert::Infallible;
    fn operation_generator(self, _: &Geometry, _: bool) -> Result<Self::G, Self::Error> {
        Ok(NullGen)
    }
}

/// `(D1, D2)` of the SDK for two boxed datagrams (the SDK's tuple impl needs statically typed members; it is used
/// as such for every (modulation, gain) pair and compared with this one there)
#[derive(Debug)]
struct DynPair {
    a: BoxedDatagram,
    b: BoxedDatagram,
}
struct DynPairGen {
    g1: <BoxedDatagram as autd3_core::datagram::Datagram>::G,
    g2: <BoxedDatagram as autd3_core::datagram::Datagram>::G,
}
impl autd3_driver::firmware::operation::OperationGenerator for DynPairGen {
    type O1 = autd3_driver::firmware::operation::BoxedOperation;
    type O2 = autd3_driver::firmware::operation::BoxedOperation;
    fn generate(&mut self, device: &Device) -> (Self::O1, Self::O2) {
        (self.g1.generate(device).0, self.g2.generate(device).0)
    }
}
impl autd3_core::datagram::Datagram for DynPair {
    type G = DynPairGen;
    type Error = AUTDDriverError;
    fn operation_generator(self, geometry: &Geometry, parallel: bool) -> Result<Self::G, Self::Error> {
        match (self.a.operation_generator(geometry, parallel), self.b.operation_generator(geometry, parallel)) {
            (Ok(g1), Ok(g2)) => Ok(DynPairGen { g1, g2 }),
            (Err(e), _) => Err(e),
            (_, Err(e)) => Err(e),
        }
    }
    fn option(&self) -> autd3_core::datagram::DatagramOption {
        autd3_core::datagram::DatagramOption {
            timeout: self.a.option().timeout.max(self.b.option().timeout),
            parallel_threshold: self.a.option().parallel_threshold.min(self.b.option().parallel_threshold),
        }
    }
}

fn boxed(d: &Sx) -> BoxedDatagram {
    with_dg!(gstm_direct_gains, d, x => IntoBoxedDatagram::into_boxed(x))
}

pub struct DirectWorld {
    pub rec: Arc<Mutex<Rec>>,
    pub ctl: Ctl,
    pub n: usize,
}
impl DirectWorld {
    pub fn new(rt: &tokio::runtime::Runtime, nn: usize) -> Self {
        Self::new_v(rt, nn, 0)
    }
    pub fn new_v(rt: &tokio::runtime::Runtime, nn: usize, gv: usize) -> Self {
        let rec = new_rec();
        let ctl = rt.block_on(Ctl::open(devices_v(nn, gv), RecLink(rec.clone()))).expect("direct open");
        DirectWorld { rec, ctl, n: nn }
    }
    fn finish(&self, r: Result<Result<(), String>, String>) -> Outcome {
        let status = match r {
            Ok(Ok(())) => "ok".into(),
            Ok(Err(e)) => format!("resp-err {e}"),
            Err(p) => panic_status(&p),
        };
        end(&self.rec, status)
    }
    /// the original datagram(s), sent the way an SDK user sends them
    pub fn send(&mut self, rt: &tokio::runtime::Runtime, t: &Sx, so: Option<&Sx>, typed_pairs: bool) -> Outcome {
        begin(&self.rec);
        let ctl = &mut self.ctl;
        let r = guarded(|| {
            rt.block_on(async {
                if t.head() == "t1" {
                    with_dg!(gstm_direct_gains, t.at(1), x => send_direct(ctl, x, so).await)
                } else if typed_pairs && MOD_TAGS.contains(&t.at(1).head()) && GAIN_TAGS.contains(&t.at(2).head()) {
                    with_mod!(t.at(1), x => with_gain!(t.at(2), y => send_direct(ctl, (x, y), so).await))
                } else {
                    send_direct(ctl, DynPair { a: boxed(t.at(1)), b: boxed(t.at(2)) }, so).await
                }
            })
        });
        self.finish(r)
    }
    pub fn fpga_state(&mut self, rt: &tokio::runtime::Runtime) -> (String, Outcome) {
        begin(&self.rec);
        let ctl = &mut self.ctl;
        let (val, status) = match guarded(|| rt.block_on(ctl.fpga_state())) {
            Ok(Ok(v)) => (fpga_state_text(&v), "ok".to_string()),
            Ok(Err(e)) => ("-".to_string(), format!("resp-err {e}")),
            Err(p) => ("-".to_string(), panic_status(&p)),
        };
        (val, end(&self.rec, status))
    }
    pub fn firmware_version(&mut self, rt: &tokio::runtime::Runtime) -> (String, Outcome) {
        begin(&self.rec);
        let ctl = &mut self.ctl;
        let (val, status) = match guarded(|| rt.block_on(ctl.firmware_version())) {
            Ok(Ok(v)) => (version_text(&v), "ok".to_string()),
            Ok(Err(e)) => ("-".to_string(), format!("resp-err {e}")),
            Err(p) => ("-".to_string(), panic_status(&p)),
        };
        (val, end(&self.rec, status))
    }
    pub fn group_send(&mut self, rt: &tokio::runtime::Runtime, keys: &[i32], tuples: &[Sx], so: Option<&Sx>) -> Outcome {
        begin(&self.rec);
        let ctl = &mut self.ctl;
        let r = guarded(|| {
            rt.block_on(async {
                let map: std::collections::HashMap<usize, DynPair> = tuples
                    .iter()
                    .enumerate()
                    .map(|(i, t)| {
                        let b2 = if t.head() == "t1" { IntoBoxedDatagram::into_boxed(NullDg) } else { boxed(t.at(2)) };
                        (i, DynPair { a: boxed(t.at(1)), b: b2 })
                    })
                    .collect();
                let km = |dev: &Device| {
                    let k = keys[dev.idx()];
                    if k < 0 { None } else { Some(k as usize) }
                };
                match so {
                    None => ctl.group_send(km, map).await.map_err(|e| e.to_string()),
                    Some(s) => ctl.sender(sopt_dyn(s)).group_send(km, map).await.map_err(|e| e.to_string()),
                }
            })
        });
        self.finish(r)
    }
}

// ================================================================================================
// message schema: which argument of which message may be removed / has a numeric range

struct Schema {
    /// removing it must be answered with an error
    required: &'static [usize],
    /// removing it is legal: the SDK default (or `None`) is substituted
    defaultable: &'static [usize],
    /// (argument, class)
    ranges: &'static [(usize, &'static str)],
}
fn schema(tag: &str) -> Schema {
    let s = |required, defaultable, ranges| Schema { required, defaultable, ranges };
    match tag {
        "o" => s(&[], &[1, 2], &[(1, "u8"), (2, "u8")]),
        "c" => s(&[1], &[], &[]),
        "uni" => s(&[1], &[], &[(1, "u8")]),
        "clamp" => s(&[1, 2], &[], &[(1, "u8"), (2, "u8")]),
        "h" => s(&[1, 2], &[], &[]),
        "focus" => s(&[1, 2], &[], &[]),
        "bessel" => s(&[1, 2, 3, 4], &[], &[]),
        "plane" => s(&[1, 2], &[], &[]),
        "uniform" => s(&[1, 2], &[], &[(1, "u8"), (2, "u8")]),
        "naive" | "gs" | "gspat" | "lm" | "greedy" => s(&[2], &[], &[]),
        "no" => s(&[], &[1], &[]),
        "go" => s(&[], &[1, 2], &[(2, "nz")]),
        "lo" => s(&[], &[1, 2, 3, 4, 5], &[(5, "nz")]),
        "gro" => s(&[], &[1, 2], &[(2, "u8nz")]),
        "gain" | "mod" | "sil" | "tr" | "lb" | "sc" | "swap" | "d" => s(&[1], &[], &[]),
        "div" => s(&[], &[], &[(1, "u16nz")]),
        "so" => s(&[], &[1, 2, 3, 4, 5], &[(2, "u8"), (3, "u8")]),
        "qo" => s(&[], &[1, 2, 3, 4], &[(2, "u8"), (3, "u8")]),
        "static" => s(&[], &[1], &[(1, "u8")]),
        "sine_e" | "sine_f" | "sine_n" | "sq_e" | "sq_f" | "sq_n" => s(&[2], &[], &[]),
        "rate" => s(&[], &[], &[(1, "u16nz"), (2, "u16nz")]),
        "steps" => s(&[], &[1, 2, 3], &[(1, "u16nz"), (2, "u16nz")]),
        "time" => s(&[], &[1, 2, 3], &[]),
        "gpio" => s(&[], &[], &[(1, "gpio")]),
        "fin" => s(&[], &[], &[(1, "u16nz")]),
        "g" | "m" | "f" | "s" => s(&[2], &[], &[(1, "seg")]),
        "cp" => s(&[1], &[2], &[(2, "u8")]),
        "cps" => s(&[], &[2], &[(2, "u8")]),
        "foci" => s(&[2], &[], &[]),
        "gstm" => s(&[2, 3], &[], &[]),
        "gso" => s(&[], &[1], &[(1, "mode")]),
        "wseg" => s(&[1], &[3], &[(2, "seg")]),
        "wloop" => s(&[1, 2], &[4], &[(3, "seg")]),
        "tuple" => s(&[1], &[2], &[]),
        "sopt" => s(&[5], &[3], &[(4, "par")]),
        "spin" => s(&[], &[], &[(2, "strat")]),
        "std" | "async" => s(&[], &[1], &[]),
        "send" => s(&[1], &[2], &[]),
        "gsend" => s(&[], &[3], &[]),
        _ => s(&[], &[], &[]),
    }
}
fn bad_values(class: &str) -> &'static [i64] {
    match class {
        "u8" => &[256, 4294967295],
        "u16nz" => &[0, 65536, 65537],
        "nz" => &[0],
        "u8nz" => &[0, 256],
        "seg" => &[2, -1],
        "gpio" => &[4, -1],
        "mode" => &[3, -1],
        "par" => &[3, -1],
        "strat" => &[2, -1],
        c => panic!("class {c}"),
    }
}

#[derive(Clone, Debug)]
struct Mutation {
    path: Vec<usize>,
    /// `None` = remove
    value: Option<i64>,
    /// must the answer be an error?
    must_fail: bool,
    name: String,
}
fn mutations(sx: &Sx, path: &mut Vec<usize>, out: &mut Vec<Mutation>) {
    if let Sx::L(v) = sx {
        let tag = sx.head().to_string();
        let sch = schema(&tag);
        for (must_fail, idxs) in [(true, sch.required), (false, sch.defaultable)] {
            for &i in idxs {
                if i < v.len() && !v[i].is_none() {
                    let mut p = path.clone();
                    p.push(i);
                    out.push(Mutation { path: p, value: None, must_fail, name: format!("{tag}.{i}=~") });
                }
            }
        }
        for &(i, class) in sch.ranges {
            if i < v.len() && matches!(&v[i], Sx::A(s) if s != "~") {
                for &bad in bad_values(class) {
                    let mut p = path.clone();
                    p.push(i);
                    out.push(Mutation { path: p, value: Some(bad), must_fail: true, name: format!("{tag}.{i}={bad}") });
                }
            }
        }
        for (i, c) in v.iter().enumerate().skip(1) {
            path.push(i);
            mutations(c, path, out);
            path.pop();
        }
    }
}
fn apply(sx: &Sx, m: &Mutation) -> Sx {
    let mut t = sx.clone();
    *t.get_mut(&m.path) = match m.value {
        None => none(),
        Some(v) => a(v),
    };
    t
}

/// the SDK default of argument `idx` of message `parent` inside the leaf message `top` (as printed in a spec)
fn sdk_default(parent: &str, top: &str, idx: usize) -> Option<String> {
    let (so, qo, st) = (SineOption::default(), SquareOption::default(), FixedCompletionSteps::default());
    Some(match (parent, idx) {
        ("o", 1) => match top {
            "focus" => FocusOption::default().intensity.0,
            "bessel" => BesselOption::default().intensity.0,
            "plane" => PlaneOption::default().intensity.0,
            _ => return None,
        }
        .to_string(),
        ("o", 2) => match top {
            "focus" => FocusOption::default().phase_offset.0,
            "bessel" => BesselOption::default().phase_offset.0,
            "plane" => PlaneOption::default().phase_offset.0,
            _ => return None,
        }
        .to_string(),
        ("so", 2) => so.intensity.to_string(),
        ("so", 3) => so.offset.to_string(),
        ("so", 4) => so.phase.radian().to_bits().to_string(),
        ("so", 5) => (so.clamp as u8).to_string(),
        ("qo", 2) => qo.low.to_string(),
        ("qo", 3) => qo.high.to_string(),
        ("qo", 4) => qo.duty.to_bits().to_string(),
        ("static", 1) => Static::default().intensity.to_string(),
        ("steps", 1) => st.intensity.get().to_string(),
        ("steps", 2) => st.phase.get().to_string(),
        ("steps", 3) => (st.strict_mode as u8).to_string(),
        ("time", 1) => FixedCompletionTime::default().intensity.as_nanos().to_string(),
        ("time", 2) => FixedCompletionTime::default().phase.as_nanos().to_string(),
        ("time", 3) => (FixedCompletionTime::default().strict_mode as u8).to_string(),
        ("cp", 2) => ControlPoint::default().phase_offset.0.to_string(),
        ("cps", 2) => ControlPoints::<1>::default().intensity.0.to_string(),
        ("gso", 1) => (GainSTMOption::default().mode as u8).to_string(),
        ("no", 1) => s_cons(&NaiveOption::<Sphere>::default().constraint).text(),
        ("go", 1) if top == "gs" => s_cons(&GSOption::<Sphere>::default().constraint).text(),
        ("go", 2) if top == "gs" => GSOption::<Sphere>::default().repeat.get().to_string(),
        ("go", 1) => s_cons(&GSPATOption::<Sphere>::default().constraint).text(),
        ("go", 2) => GSPATOption::<Sphere>::default().repeat.get().to_string(),
        ("lo", 1) => s_cons(&LMOption::<Sphere>::default().constraint).text(),
        ("lo", 2) => LMOption::<Sphere>::default().eps_1.to_bits().to_string(),
        ("lo", 3) => LMOption::<Sphere>::default().eps_2.to_bits().to_string(),
        ("lo", 4) => LMOption::<Sphere>::default().tau.to_bits().to_string(),
        ("lo", 5) => LMOption::<Sphere>::default().k_max.get().to_string(),
        ("gro", 1) => s_cons(&GreedyOption::<Sphere>::default().constraint).text(),
        ("gro", 2) => GreedyOption::<Sphere>::default().phase_div.get().to_string(),
        _ => return None,
    })
}
/// where the field at `path` of a leaf message sits in the SDK value printed by `leaf`
fn rebuilt_path(kind: &str, parent: &str, path: &[usize]) -> Vec<usize> {
    let mut p = path.to_vec();
    match parent {
        // holo option structs are flattened into the gain: (gs foci (go c rep)) -> (gs foci c rep)
        "no" | "go" | "lo" | "gro" => vec![1 + *path.last().unwrap()],
        // (gstm gains sc (gso mode)) -> (gstm kinds sc mode)
        "gso" => vec![3],
        _ => {
            if kind.starts_with("foci") {
                // (foci (l ..) sc) -> (foci N (l ..) sc)
                p[0] += 1;
            }
            p
        }
    }
}

// ================================================================================================
// the SDK's defaults, read from the real `Default` impls

fn defaults_sx() -> Sx {
    let fo = FocusOption::default();
    let be = BesselOption::default();
    let pl = PlaneOption::default();
    let gs = GSOption::<Sphere>::default();
    let gp = GSPATOption::<Sphere>::default();
    let lm = LMOption::<Sphere>::default();
    let gr = GreedyOption::<Sphere>::default();
    let st = FixedCompletionSteps::default();
    let ti = FixedCompletionTime::default();
    n(
        "dflt",
        vec![
            s_ip(fo.intensity, fo.phase_offset),
            s_ip(be.intensity, be.phase_offset),
            s_ip(pl.intensity, pl.phase_offset),
            s_cons(&NaiveOption::<Sphere>::default().constraint),
            s_cons(&gs.constraint),
            a(gs.repeat.get()),
            s_cons(&gp.constraint),
            a(gp.repeat.get()),
            s_cons(&lm.constraint),
            fb(lm.eps_1),
            fb(lm.eps_2),
            fb(lm.tau),
            a(lm.k_max.get()),
            s_cons(&gr.constraint),
            a(gr.phase_div.get()),
            s_sine_opt(&SineOption::default()),
            s_square_opt(&SquareOption::default()),
            a(Static::default().intensity),
            a(st.intensity.get()),
            a(st.phase.get()),
            b(st.strict_mode),
            a(ti.intensity.as_nanos()),
            a(ti.phase.as_nanos()),
            b(ti.strict_mode),
            a(ControlPoint::default().phase_offset.0),
            a(ControlPoints::<1>::default().intensity.0),
            a(GainSTMOption::default().mode as u8),
        ],
    )
}

// ================================================================================================
// generators

struct Gen {
    r: Rng,
    /// only values the frames oracle can use (finite floats, valid ranges, small sizes)
    nice: bool,
}
const ODD_F32: [u32; 10] = [0x0000_0000, 0x8000_0000, 0x0000_0001, 0x7f7f_ffff, 0x7f80_0000, 0xff80_0000, 0x7fc0_0000, 0x7fa0_1234, 0xffc0_0001, 0x3f80_0001];
impl Gen {
    fn f(&mut self, lo: f32, hi: f32) -> Sx {
        if !self.nice && self.r.chance(1, 6) {
            return a(*self.r.pick(&ODD_F32));
        }
        let t = (self.r.next() >> 40) as f32 / (1u64 << 24) as f32;
        fb(lo + (hi - lo) * t)
    }
    fn u8(&mut self) -> Sx {
        a(match self.r.below(8) {
            0 => 0,
            1 => 255,
            _ => self.r.below(256),
        })
    }
    fn p3(&mut self) -> Sx {
        n("p", vec![self.f(-60., 250.), self.f(-60., 200.), self.f(80., 300.)])
    }
    /// the components of a real `UnitVector3` (so that the spec carries exactly what the datagram holds)
    fn dir(&mut self) -> Sx {
        let v = loop {
            let (x, y, z) = (self.f(-1., 1.).f(), self.f(-1., 1.).f(), self.f(0.2, 1.).f());
            if x.is_finite() && y.is_finite() && z.is_finite() && (x != 0. || y != 0. || z != 0.) {
                break UnitVector3::new_normalize(Vector3::new(x, y, z));
            }
        };
        match self.r.below(6) {
            0 => n("p", vec![fb(0.), fb(0.), fb(1.)]),
            _ => s_uv(&v),
        }
    }
    fn ip(&mut self) -> Sx {
        n("o", vec![self.u8(), self.u8()])
    }
    fn cons(&mut self) -> Sx {
        match self.r.below(4) {
            0 => n("norm", vec![]),
            // the factor is an f32 the message must carry as it is: also above 1 (the solver saturates at 255), 0 and
            // negative (intensity 0) - seeded change C20-9 clamped it to [0,1] on the server
            1 => match self.r.below(4) {
                0 => n("mul", vec![self.f(1.0, 4.0)]),
                1 => n("mul", vec![self.f(-1.0, 0.1)]),
                _ => n("mul", vec![self.f(0.1, 1.0)]),
            },
            2 => n("uni", vec![self.u8()]),
            _ => {
                let (x, y) = (self.r.below(256), self.r.below(256));
                n("clamp", vec![a(x.min(y)), a(x.max(y))])
            }
        }
    }
    fn holos(&mut self) -> Sx {
        let k = self.r.range(1, 3);
        lst((0..k).map(|_| n("h", vec![self.p3(), self.f(2000., 9000.)])).collect())
    }
    fn gain_kind(&mut self, kind: u64) -> Sx {
        match kind {
            0 => n("focus", vec![self.p3(), self.ip()]),
            1 => n("bessel", vec![self.p3(), self.dir(), self.f(0.1, 1.2), self.ip()]),
            2 => n("plane", vec![self.dir(), self.ip()]),
            3 => n("uniform", vec![self.u8(), self.u8()]),
            4 => n("null", vec![]),
            5 => n("naive", vec![self.holos(), self.cons()]),
            6 => n("gs", vec![self.holos(), self.cons(), a(self.r.range(1, 4))]),
            7 => n("gspat", vec![self.holos(), self.cons(), a(self.r.range(1, 4))]),
            8 => {
                let h = self.holos();
                let k = self.r.below(3);
                let ini = (0..k).map(|_| self.f(0., 1.)).collect();
                n("lm", vec![h, self.cons(), self.f(1e-9, 1e-6), self.f(1e-9, 1e-6), self.f(1e-4, 1e-2), a(self.r.range(1, 3)), lst(ini)])
            }
            _ => n("greedy", vec![self.holos(), self.cons(), a(self.r.range(1, 12))]),
        }
    }
    fn gain(&mut self) -> Sx {
        let k = self.r.below(10);
        self.gain_kind(k)
    }
    /// no random solver (Greedy shuffles with the thread RNG): usable where frames are compared
    fn gain_det(&mut self) -> Sx {
        let k = self.r.below(9);
        self.gain_kind(k)
    }
    fn sc(&mut self) -> Sx {
        // 4 kHz and 8 kHz in every representation (valid), plus arbitrary values when not `nice`
        let fast = self.r.chance(1, 3);
        let (div, hz, ns) = if fast { (5u64, 8000.0f32, 125_000u64) } else { (10, 4000.0, 250_000) };
        match self.r.below(5) {
            0 => n("div", vec![a(if self.nice { div } else { *self.r.pick(&[1, div, 65535, 4096]) })]),
            1 => n("freq", vec![if self.nice { fb(hz) } else { self.f(1., 40000.) }]),
            2 => n("freqn", vec![if self.nice { fb(hz + 3.3) } else { self.f(1., 40000.) }]),
            3 => n("per", vec![a(if self.nice { ns } else { *self.r.pick(&[ns, 25_000, 1, 18_446_744_073_709_551_615]) })]),
            _ => n("pern", vec![a(if self.nice { ns + 777 } else { *self.r.pick(&[ns, 0, 12_345_678_901]) })]),
        }
    }
    fn sine_opt(&mut self) -> Sx {
        // intensity/offset chosen so that the wave stays inside 0..=255 (or clamp is set)
        let (i, o, c) = match self.r.below(3) {
            0 => (self.r.below(100), self.r.range(60, 190), self.r.chance(1, 2)),
            1 => (255, 128, true),
            _ => (self.r.below(256), self.r.below(256), true),
        };
        n("so", vec![self.sc(), a(i), a(o), self.f(0., 6.2), b(c)])
    }
    fn square_opt(&mut self) -> Sx {
        n("qo", vec![self.sc(), self.u8(), self.u8(), self.f(0., 1.)])
    }
    fn mod_kind(&mut self, kind: u64) -> Sx {
        let fu = *self.r.pick(&[50u64, 100, 150, 200, 250, 400, 500, 1000]);
        let ff = *self.r.pick(&[50.0f32, 100., 150., 200., 250., 400.]);
        let fnr = *self.r.pick(&[50.0f32, 133.3, 175.5, 444.4, 1000.]);
        match kind {
            0 => n("static", vec![self.u8()]),
            1 => n("sine_e", vec![a(if self.nice { fu } else { *self.r.pick(&[fu, 0, 4_294_967_295]) }), self.sine_opt()]),
            2 => n("sine_f", vec![if self.nice { fb(ff) } else { self.f(1., 2000.) }, self.sine_opt()]),
            3 => n("sine_n", vec![if self.nice { fb(fnr) } else { self.f(1., 2000.) }, self.sine_opt()]),
            4 => n("sq_e", vec![a(if self.nice { fu } else { *self.r.pick(&[fu, 0, 4_294_967_295]) }), self.square_opt()]),
            5 => n("sq_f", vec![if self.nice { fb(ff) } else { self.f(1., 2000.) }, self.square_opt()]),
            _ => n("sq_n", vec![if self.nice { fb(fnr) } else { self.f(1., 2000.) }, self.square_opt()]),
        }
    }
    fn modulation(&mut self) -> Sx {
        let k = self.r.below(7);
        self.mod_kind(k)
    }
    fn nz16(&mut self) -> Sx {
        a(match self.r.below(6) {
            0 => 1,
            1 => 65535,
            _ => self.r.range(1, 300),
        })
    }
    fn sil_kind(&mut self, kind: u64) -> Sx {
        match kind {
            0 => n("rate", vec![self.nz16(), self.nz16()]),
            1 => {
                if self.nice && self.r.chance(3, 4) {
                    // a strict configuration every later modulation/STM of the history satisfies, or a non-strict one
                    if self.r.chance(1, 2) { n("steps", vec![a(self.r.range(1, 5)), a(self.r.range(1, 5)), b(true)]) } else { n("steps", vec![self.nz16(), self.nz16(), b(false)]) }
                } else {
                    n("steps", vec![self.nz16(), self.nz16(), b(self.r.chance(1, 2))])
                }
            }
            _ => {
                // whole ultrasound periods (valid), other whole microseconds (invalid for the device, still carried
                // exactly), and - when not `nice` - durations the message cannot carry
                let mut t = |g: &mut Gen| match g.r.below(if g.nice { 5 } else { 8 }) {
                    0..=3 => 25_000 * g.r.range(1, 200),
                    4 => 1_000 * g.r.range(1, 5000),
                    5 => 25_000 * g.r.range(1, 200) + g.r.range(1, 999),
                    6 => 1_000 * ((1u64 << 32) + 25 * g.r.range(0, 40)),
                    _ => 0,
                };
                let (x, y) = (t(self), t(self));
                let strict = if self.nice { self.r.chance(1, 8) } else { self.r.chance(1, 2) };
                n("time", vec![a(x), a(y), b(strict)])
            }
        }
    }
    fn tr(&mut self) -> Sx {
        match self.r.below(5) {
            0 => n("sidx", vec![]),
            1 => n("sys", vec![a(if self.r.chance(1, 4) { u64::MAX } else { self.r.below(1 << 40) })]),
            2 => n("gpio", vec![a(self.r.below(4))]),
            3 => n("ext", vec![]),
            _ => n("imm", vec![]),
        }
    }
    fn opt_tr(&mut self) -> Sx {
        if self.r.chance(1, 5) { none() } else { self.tr() }
    }
    /// when `nice`: mostly a mode the firmware accepts for this loop behaviour (finite: SyncIdx/SysTime/GPIO,
    /// infinite: Immediate/Ext, a gain: Immediate), otherwise any
    fn tr_for(&mut self, finite: bool, gain: bool) -> Sx {
        if !self.nice || self.r.chance(1, 8) {
            return self.opt_tr();
        }
        if self.r.chance(1, 5) {
            return none();
        }
        if gain {
            n("imm", vec![])
        } else if finite {
            match self.r.below(3) {
                0 => n("sidx", vec![]),
                1 => n("sys", vec![a(self.r.below(1 << 40))]),
                _ => n("gpio", vec![a(self.r.below(4))]),
            }
        } else if self.r.chance(1, 2) {
            n("imm", vec![])
        } else {
            n("ext", vec![])
        }
    }
    fn lb(&mut self) -> Sx {
        match self.r.below(4) {
            0 => n("inf", vec![]),
            1 => n("fin", vec![a(*self.r.pick(&[1u64, 65535]))]),
            _ => n("fin", vec![a(self.r.range(1, 500))]),
        }
    }
    fn swap(&mut self, kind: u64) -> Sx {
        n("swap", vec![a(["g", "m", "f", "s"][kind as usize % 4]), a(self.r.below(2)), self.tr()])
    }
    fn stm_cfg(&mut self, allow_other: bool) -> Sx {
        if allow_other && self.r.chance(2, 5) {
            // Freq / Period configs of the STM itself (client converts them with `sampling_config()`)
            match self.r.below(4) {
                0 => n("stmfreq", vec![fb(*self.r.pick(&[50.0f32, 100., 125., 200.]))]),
                1 => n("stmfreqn", vec![fb(*self.r.pick(&[51.3f32, 99.9, 170.]))]),
                2 => n("stmper", vec![a(*self.r.pick(&[10_000_000u64, 6_000_000, 12_000_000]))]),
                _ => n("stmpern", vec![a(*self.r.pick(&[10_000_123u64, 7_654_321]))]),
            }
        } else {
            self.sc()
        }
    }
    fn foci(&mut self, nn: u64, allow_other: bool) -> Sx {
        let size = if allow_other { *self.r.pick(&[1u64, 2, 3, 4, 6]) } else { self.r.range(2, 4) };
        let cfg = self.stm_cfg(allow_other && nn <= 2);
        let entries = (0..size)
            .map(|_| {
                let pts = (0..nn).map(|_| n("cp", vec![self.p3(), self.u8()])).collect();
                n("cps", vec![lst(pts), self.u8()])
            })
            .collect();
        n("foci", vec![a(nn), lst(entries), cfg])
    }
    fn gstm(&mut self, allow_other: bool) -> Sx {
        let size = if allow_other { *self.r.pick(&[1u64, 2, 3, 4]) } else { self.r.range(2, 3) };
        let cfg = self.stm_cfg(allow_other);
        let gains = (0..size)
            .map(|_| {
                let k = if self.r.chance(1, 5) { self.r.range(5, 8) } else { self.r.below(5) };
                self.gain_kind(k)
            })
            .collect();
        n("gstm", vec![lst(gains), cfg, a(self.r.below(3))])
    }
    fn flags(&mut self, nn: usize) -> Sx {
        lst((0..nn).map(|_| b(self.r.chance(1, 2))).collect())
    }
    /// all top-level kinds, by index (`KINDS`)
    fn dg_kind(&mut self, kind: usize, nn: usize) -> Sx {
        match kind {
            0 => n("clear", vec![]),
            1 => n("sync", vec![]),
            2 => n("fan", vec![self.flags(nn)]),
            3 => n("reads", vec![self.flags(nn)]),
            4..=6 => self.sil_kind(kind as u64 - 4),
            7..=10 => self.swap(kind as u64 - 7),
            11..=17 => self.mod_kind(kind as u64 - 11),
            18..=27 => self.gain_kind(kind as u64 - 18),
            28..=35 => self.foci(kind as u64 - 27, true),
            36 => self.gstm(true),
            37 => {
                let g = self.gain();
                n("wseg", vec![g, a(self.r.below(2)), self.tr_for(false, true)])
            }
            38 => {
                let m = self.modulation();
                n("wseg", vec![m, a(self.r.below(2)), self.tr_for(false, false)])
            }
            39 => {
                let nf = self.r.range(1, 8);
                let f = self.foci(nf, false);
                n("wseg", vec![f, a(self.r.below(2)), self.tr_for(false, false)])
            }
            40 => {
                let g = self.gstm(false);
                n("wseg", vec![g, a(self.r.below(2)), self.tr_for(false, false)])
            }
            41 => {
                let m = self.modulation();
                let l = self.lb();
                let t = self.tr_for(l.head() == "fin", false);
                n("wloop", vec![m, l, a(self.r.below(2)), t])
            }
            42 => {
                let nf = self.r.range(1, 8);
                let f = self.foci(nf, false);
                let l = self.lb();
                let t = self.tr_for(l.head() == "fin", false);
                n("wloop", vec![f, l, a(self.r.below(2)), t])
            }
            _ => {
                let g = self.gstm(false);
                let l = self.lb();
                let t = self.tr_for(l.head() == "fin", false);
                n("wloop", vec![g, l, a(self.r.below(2)), t])
            }
        }
    }
    fn sopt(&mut self) -> Sx {
        let sleeper = match self.r.below(3) {
            0 => n("std", vec![if self.r.chance(1, 3) { none() } else { a(self.r.range(1, 5)) }]),
            1 => n("spin", vec![a(self.r.below(200_000)), a(self.r.below(2))]),
            _ => n("async", vec![if self.r.chance(1, 3) { none() } else { a(self.r.range(1, 5)) }]),
        };
        let iv = |g: &mut Gen| if g.nice { g.r.range(1, 300_000) } else { *g.r.pick(&[0, 1, 1_000_000, u64::MAX]) };
        let (s, r) = (iv(self), iv(self));
        let timeout = match self.r.below(3) {
            0 => none(),
            1 => a(0),
            _ => a(self.r.range(1_000_000, 30_000_000)),
        };
        n("sopt", vec![a(s), a(r), timeout, a(self.r.below(3)), sleeper])
    }
}
const NKINDS: usize = 44;
fn kind_name(d: &Sx) -> String {
    let h = d.head();
    match h {
        "swap" => format!("swap-{}", d.at(1).text()),
        "foci" => format!("foci{}", d.at(1).text()),
        "wseg" | "wloop" => format!("{h}<{}>", kind_name(d.at(1))),
        "gstm" => format!("gstm-m{}", d.at(3).text()),
        _ => h.to_string(),
    }
}
fn has_greedy(d: &Sx) -> bool {
    match d {
        Sx::A(s) => s == "greedy",
        Sx::L(v) => v.iter().any(has_greedy),
    }
}
fn has_model_form(d: &Sx) -> bool {
    match d {
        Sx::A(s) => !s.starts_with("stm"),
        Sx::L(v) => v.iter().all(has_model_form),
    }
}

// ================================================================================================
// the stream

/// the one place that calls the client's entry point (`lightweight::Datagram::into_lightweight`)
fn into_lw<T: pb::lightweight::Datagram>(x: T, _geo: &Geometry) -> Result<pb::DatagramTuple, AUTDProtoBufError> {
    // the entry point as it is: no geometry, unwraps the conversion (recorded finding C20:client-entry-point-unwraps)
    Ok(x.into_lightweight())
}

struct Cx<'a> {
    rt: &'a tokio::runtime::Runtime,
    out: &'a mut Out,
    n: usize,
    /// geometry variant of the worlds (`devices_v`)
    gv: usize,
    /// violation key of `frames` comparisons, when they belong to one named probe
    force_key: Option<(String, String)>,
    geo: Geometry,
    pair: Option<(ServerWorld, DirectWorld)>,
    scratch: Option<ServerWorld>,
}

/// (leaf kind, message, the SDK value it must rebuild) for every public `from_msg` a datagram goes through
fn leaves(d: &Sx, m: &Sx, out: &mut Vec<(String, Sx, Sx)>) {
    let h = d.head();
    if GAIN_TAGS.contains(&h) {
        out.push(("gain".into(), m.at(1).clone(), d.clone()));
    } else if MOD_TAGS.contains(&h) {
        out.push(("mod".into(), m.at(1).clone(), d.clone()));
    } else if h == "rate" || h == "steps" || h == "time" {
        out.push(("sil".into(), m.at(1).clone(), d.clone()));
    } else if h == "swap" {
        out.push(("swap".into(), m.clone(), d.clone()));
        out.push(("tr".into(), m.at(1).at(2).clone(), d.at(3).clone()));
    } else if h == "foci" {
        out.push((format!("foci {}", d.at(1).text()), m.clone(), d.clone()));
        out.push(("sc".into(), m.at(2).clone(), d.at(3).clone()));
    } else if h == "gstm" {
        let kinds = n("gstm", vec![lst(d.at(1).items().iter().map(|g| a(g.head())).collect()), d.at(2).clone(), d.at(3).clone()]);
        out.push(("gstm".into(), m.clone(), kinds));
        for (g, mg) in d.at(1).items().iter().zip(m.at(1).items()) {
            out.push(("gain".into(), mg.at(1).clone(), g.clone()));
        }
    } else if h == "wseg" {
        leaves(d.at(1), m.at(1), out);
        if !d.at(3).is_none() {
            out.push(("tr".into(), m.at(3).clone(), d.at(3).clone()));
        }
    } else if h == "wloop" {
        leaves(d.at(1), m.at(1), out);
        out.push(("lb".into(), m.at(2).clone(), d.at(2).clone()));
        if !d.at(4).is_none() {
            out.push(("tr".into(), m.at(4).clone(), d.at(4).clone()));
        }
    }
}

impl Cx<'_> {
    fn worlds(&mut self) -> &mut (ServerWorld, DirectWorld) {
        if self.pair.is_none() {
            self.pair = Some((ServerWorld::new_v(self.rt, self.n, self.gv), DirectWorld::new_v(self.rt, self.n, self.gv)));
            self.out.count(&format!("worlds-opened:geometry-variant-{}", self.gv));
            self.out.count("worlds-opened");
        }
        self.pair.as_mut().unwrap()
    }
    fn scratch(&mut self) -> &ServerWorld {
        if self.scratch.is_none() {
            self.scratch = Some(ServerWorld::new_v(self.rt, self.n, self.gv));
        }
        self.scratch.as_ref().unwrap()
    }

    fn expect(&mut self, m: &Mutation, answer_class: &str, line: &str) {
        // answer_class: ok | err | panic
        if answer_class == "panic" {
            self.out.violation(format!("C20:panic:{}", m.name), format!("the message `{line}` makes the conversion/server panic"), vec![line.to_string()]);
        } else if m.must_fail && answer_class == "ok" {
            self.out.violation(
                format!("C20:accepted:{}", m.name),
                format!("missing required field / out-of-range number not answered with an error: `{line}`"),
                vec![line.to_string()],
            );
        } else if !m.must_fail && answer_class == "err" {
            self.out.violation(format!("C20:rejected:{}", m.name), format!("absent optional field answered with an error: `{line}`"), vec![line.to_string()]);
        }
        self.out.count(&format!("mutation:{}:{}", if m.value.is_some() { "range" } else if m.must_fail { "required" } else { "optional" }, answer_class));
    }

    /// conversions: client message (`tomsg`), every public `from_msg` on the way back (`leaf`), and all
    /// single-site mutations of those leaf messages
    fn conversions(&mut self, d: &Sx, max_mut: usize, r: &mut Rng) {
        let t = n("t1", vec![d.clone()]);
        let ans = tomsg_answer(&t, &self.geo);
        self.out.line(&format!("tomsg {}", t.text()), &ans);
        self.out.case(Some(fnv64(t.text().as_bytes())));
        self.out.count(&format!("conv:{}", kind_name(d)));
        if ans == "panic" {
            let ln = self.out.lines;
            let _ = kind_name(d);
            self.out.violation_at("C20:client-entry-point-unwraps".into(), format!("the lightweight client's entry point panics on {}", t.text()), vec![format!("tomsg {}", t.text())], ln);
        }
        if !ans.starts_with("ok ") {
            self.out.count(&format!("tomsg:{}", ans.split(' ').take(2).collect::<Vec<_>>().join("-")));
            return;
        }
        let msg = Sx::parse(&ans[3..]).unwrap().remove(0);
        let dgv = msg.at(1).at(1).clone();
        let mut ls = vec![];
        leaves(d, &dgv, &mut ls);
        for (kind, m, want) in ls {
            let op = format!("leaf {kind} {}", m.text());
            let got = leaf(&kind, &m);
            self.out.line(&op, &got);
            if got != format!("ok {}", want.text()) {
                self.out.violation(
                    format!("C20:roundtrip:{}", want.head()),
                    format!("from_msg(to_msg(d)) is not d: sent {} rebuilt {}", want.text(), got),
                    vec![format!("tomsg {}", t.text()), op.clone()],
                );
            }
            let mut ms = vec![];
            mutations(&m, &mut vec![], &mut ms);
            while ms.len() > max_mut {
                let k = r.below(ms.len() as u64) as usize;
                ms.swap_remove(k);
            }
            for mu in ms {
                let mt = apply(&m, &mu);
                let op = format!("leaf {kind} {}", mt.text());
                let got = leaf(&kind, &mt);
                self.out.line(&op, &got);
                self.expect(&mu, got.split(' ').next().unwrap(), &op);
                // an absent optional field must come back as the SDK's own `Default` (where the rebuilt value has
                // the same shape as the message, the field is found at the same place)
                if mu.value.is_none() && !mu.must_fail && got.starts_with("ok ") && mu.path.len() >= 1 && (kind != "gstm" || mu.name.starts_with("gso.")) {
                    let parent = if mu.path.len() == 1 { m.head().to_string() } else { m.clone().get_mut(&mu.path[..mu.path.len() - 1]).head().to_string() };
                    if let Some(dflt) = sdk_default(&parent, m.head(), *mu.path.last().unwrap()) {
                        let mut rebuilt = Sx::parse(&got[3..]).unwrap().remove(0);
                        let at = rebuilt.get_mut(&rebuilt_path(&kind, &parent, &mu.path)).text();
                        self.out.count("default-checked");
                        if at != dflt {
                            self.out.violation(
                                format!("C20:default:{}", mu.name),
                                format!("absent optional field rebuilt as {at}, the SDK default is {dflt}: `{op}` -> {got}"),
                                vec![op.clone()],
                            );
                        }
                    }
                }
            }
        }
    }

    /// the implementation oracle: server behind the message vs controller sent the original
    fn frames(&mut self, t: &Sx, so: Option<&Sx>) {
        let kind = if t.head() == "t1" { kind_name(t.at(1)) } else { format!("({},{})", kind_name(t.at(1)), kind_name(t.at(2))) };
        let (key, what_prefix) = self.force_key.clone().unwrap_or((format!("C20:frames:{kind}{}", if so.is_some() { "+sopt" } else { "" }), String::new()));
        self.out.case(Some(fnv64(format!("{}{:?}", t.text(), so.map(|s| s.text())).as_bytes())));
        self.out.count(&format!("frames:{kind}"));
        let nn = self.n;
        let geo = geometry_v(self.n, self.gv);
        let mut replay = vec![format!("frames {} {}", t.text(), so.map(|s| s.text()).unwrap_or("~".into()))];
        if std::env::var("C20_TRACE").is_ok() {
            eprintln!("BEGIN {}", replay[0]);
        }
        if self.gv != 0 {
            // the worlds were opened with this geometry (identity rotations, 192 mm apart, 340 m/s otherwise)
            replay.insert(0, open_text(self.n, self.gv));
        }
        let msg = match guarded(|| client_tuple(t, &geo)) {
            Err(p) => {
                // the only panicking client code on the unchanged tree is the entry point's `unwrap` (recorded finding);
                // any other panic site is a different violation
                let key = if p.contains("lightweight/client.rs") || p.contains("datagram/force_fan.rs") || p.contains("datagram/reads_fpga_state.rs") {
                    "C20:client-entry-point-unwraps".to_string()
                } else {
                    format!("C20:client-panic:{kind}:{}", panic_key(&p))
                };
                self.out.violation(key, format!("client conversion panics: {p}"), replay);
                return;
            }
            Ok(Err(e)) => {
                // the client refuses the datagram: then sending it directly must fail too, with nothing transmitted
                self.out.count(&format!("frames:client-refuses:{}", err_kind(&e)));
                let rt = self.rt;
                let (_, dw) = self.worlds();
                let o = dw.send(rt, t, so, true);
                let bad = o.class() != "resp-err" || o.frames != 0;
                if bad || o.class() == "panic" {
                    self.out.violation(key, format!("client refuses the datagram ({e}) but the controller answers {}", o.text()), replay);
                }
                // the direct world got a send the server world did not: start both afresh
                self.pair = None;
                return;
            }
            Ok(Ok(m)) => m,
        };
        let req = pb::SendRequestLightweight { datagram: Some(msg.clone()), sender_option: so.map(sopt_to_msg) };
        let req_sx = n("send", vec![m_tuple(&msg), opt(req.sender_option.as_ref(), m_sopt)]);
        let rt = self.rt;
        let (sw, dw) = self.worlds();
        let t0 = std::time::Instant::now();
        let os = sw.send(rt, req);
        let elapsed = t0.elapsed();
        let od = dw.send(rt, t, so, true);
        if let Some(s) = so {
            let interval = Duration::from_nanos(s.at(1).u());
            if interval >= Duration::from_millis(20) && os.class() == "ok" && os.frames >= 2 && elapsed < interval * (os.frames as u32 - 1) * 9 / 10 {
                self.out.violation(
                    format!("C20:sopt-ignored:{kind}"),
                    format!("{} frames with send interval {interval:?} took the server only {elapsed:?}", os.frames),
                    replay.clone(),
                );
            }
        }
        if has_model_form(t) {
            let ans = match os.class() {
                "ok" | "resp-err" | "emu-panic" => "ok".to_string(),
                "status" => os.status.clone(),
                _ => "panic".to_string(),
            };
            self.out.line(&format!("srv {nn} {}", req_sx.text()), &ans);
        }
        if std::env::var("C20_TRACE").is_ok() {
            eprintln!("FRAMES {} {} | S {} | D {}", t.text(), so.map(|s| s.text()).unwrap_or_default(), os.text(), od.text());
        }
        self.out.count(&format!("frames-outcome:{}", os.class()));
        if os.class() == "resp-err" {
            let msg: String = os.status.chars().filter(|c| !c.is_ascii_digit()).take(60).collect();
            self.out.count(&format!("frames-err:{kind}:{msg}"));
        }
        self.out.count_n("frames-sent", os.frames as u64);
        let same = if has_greedy(t) {
            // Greedy shuffles the transducers with the thread RNG: only the shape of the outcome is comparable
            os.class() == od.class() && os.frames == od.frames
        } else {
            os == od
        };
        if !same {
            self.out.violation(key, format!("{what_prefix}{kind}: server: {} | direct: {}", os.text(), od.text()), replay);
        }
        // a pack error under ParallelMode::On leaves the per-device message ids schedule dependent (rayon): the next
        // frames of either world are then not reproducible - start afresh (serial packing is deterministic)
        let par_err = os.class() == "resp-err" && so.map(|s| s.at(4).u() == 1).unwrap_or(false);
        if !same || os.class().ends_with("panic") || od.class().ends_with("panic") || has_greedy(t) || par_err {
            self.pair = None;
        }
        self.out.sample(format!("{} -> {}", t.text(), os.text()));
    }

    /// Probe (stable key `C20:open:sound-speed-dropped`): the client's geometry carries a sound speed per device
    /// (`Controller::open` of the lightweight client accepts `Device`s; `Geometry -> message` transmits it, C18). A
    /// server that rebuilds its controller from positions and rotations only computes every phase (Focus, Bessel,
    /// holo) and the FociSTM sound-speed word for 340 m/s instead. One device, identity rotation, 350 m/s; one
    /// Focus and one two-point FociSTM. Returns whether the server honours the sound speed.
    fn sound_speed_probe(&mut self) -> bool {
        let (n0, gv0) = (self.n, self.gv);
        self.n = 1;
        self.gv = 3;
        self.geo = geometry_v(1, 3);
        self.pair = None;
        self.force_key = Some((
            "C20:open:sound-speed-dropped".into(),
            "the client's geometry (one device at the origin, identity rotation, sound speed 350 m/s) is handed to `open`; the server's controller computes for the default 340 m/s (server/mod.rs `open` rebuilds the devices from position and rotation only): ".into(),
        ));
        let before = self.out.violations.len();
        let relax = n("t1", vec![n("steps", vec![a(10), a(40), b(false)])]);
        self.frames(&relax, None);
        let p = |x: f32, y: f32, z: f32| n("p", vec![fb(x), fb(y), fb(z)]);
        self.frames(&n("t1", vec![n("focus", vec![p(10., 20., 150.), n("o", vec![a(255), a(0)])])]), None);
        let cps = |x: f32| n("cps", vec![lst(vec![n("cp", vec![p(x, 20., 150.), a(0)])]), a(255)]);
        self.frames(&n("t1", vec![n("foci", vec![a(1), lst(vec![cps(10.), cps(-10.)]), n("div", vec![a(10)])])]), None);
        let honoured = self.out.violations.len() == before;
        self.out.count(if honoured { "open:sound-speed:honoured" } else { "open:sound-speed:dropped" });
        self.force_key = None;
        self.n = n0;
        self.gv = gv0;
        self.geo = geometry_v(n0, gv0);
        self.pair = None;
        honoured
    }

    /// `firmware_version` and `fpga_state` RPCs on the current worlds (oracle only, no op line: Model/Lightweight.lean
    /// has no open/version/state): the server's response, decoded with the client's `from_msg`, must be what the
    /// direct controller returns, with the same frames on the link and the same device state behind it
    fn rpcs(&mut self, tag: &str) {
        let rt = self.rt;
        let mut replay = vec![format!("rpc fpga_state + firmware_version {tag} ({} devices)", self.n)];
        if self.gv != 0 {
            replay.insert(0, open_text(self.n, self.gv));
        }
        let (sw, dw) = self.worlds();
        let (sv, so) = sw.fpga_state(rt);
        let (dv, dout) = dw.fpga_state(rt);
        let (svv, sov) = sw.firmware_version(rt);
        let (dvv, dov) = dw.firmware_version(rt);
        self.out.case(Some(fnv64(format!("rpc {tag} {sv} {svv}").as_bytes())));
        self.out.count(&format!("rpc:fpga_state:{tag}:{}", so.class()));
        self.out.count(&format!("rpc:firmware_version:{tag}:{}", sov.class()));
        for st in sv.split(',') {
            self.out.count(&format!("rpc:fpga_state:value:{}", if st == "~" { "None" } else if u8::from_str_radix(st, 16).map(|b| b & 1 == 1).unwrap_or(false) { "Some(thermal asserted)" } else { "Some" }));
        }
        if sv != dv || so != dout {
            self.out.violation(
                "C20:rpc:fpga_state".into(),
                format!("fpga_state() {tag}: through the server [{sv}] {} | direct controller [{dv}] {}", so.text(), dout.text()),
                replay.clone(),
            );
            self.pair = None;
        }
        if svv != dvv || sov != dov {
            self.out.violation(
                "C20:rpc:firmware_version".into(),
                format!("firmware_version() {tag}: through the server [{svv}] {} | direct controller [{dvv}] {}", sov.text(), dov.text()),
                replay,
            );
            self.pair = None;
        }
        if tag.contains("mixed") && self.n >= 2 && !self.out.notes.iter().any(|x| x.starts_with("rpc ")) {
            self.out.notes.push(format!("rpc {tag} ({} devices; the link answers version kind k of device i with 0x10*k+i): fpga_state [{sv}] firmware_version [{svv}]", self.n));
        }
    }

    /// assert the thermal sensor of one emulator in both worlds
    fn thermal(&mut self, dev: usize) {
        let (sw, dw) = self.worlds();
        for rec in [&sw.rec, &dw.rec] {
            let mut r = rec.lock().unwrap_or_else(|e| e.into_inner());
            if let Some(c) = r.cpus.get_mut(dev) {
                c.fpga_mut().assert_thermal_sensor();
            }
        }
    }

    /// the other RPCs and their order (oracle only): RPCs before `open`, `open` without geometry / with a device whose
    /// fields are all absent, a second `open`, `close` and RPCs after it. Every answer is an error response or a
    /// result, never a panic or a transport error; an opened server behaves like a freshly opened controller.
    fn lifecycle(&mut self) {
        let rt = self.rt;
        let key = |w: &str| format!("C20:lifecycle:{w}");
        let focus = n("t1", vec![n("focus", vec![n("p", vec![fb(10.), fb(20.), fb(150.)]), n("o", vec![a(255), a(0)])])]);
        let send_req = |geo: &Geometry| pb::SendRequestLightweight { datagram: Some(client_tuple(&focus, geo).unwrap()), sender_option: None };
        let mut check = |out: &mut Out, what: &str, o: &Outcome, want: &str, replay: &str| {
            out.count(&format!("lifecycle:{what}:{}", o.class()));
            if o.class() != want {
                out.violation(key(what), format!("{what}: expected `{want}`, the server answers {}", o.text()), vec![replay.to_string()]);
            }
        };
        // (a) nothing opened yet: every RPC is answered with an error response
        {
            let sw = ServerWorld::unopened();
            let g1 = geometry(1);
            check(self.out, "send-before-open", &sw.send(rt, send_req(&g1)), "resp-err", "send before open");
            check(self.out, "group_send-before-open", &sw.group_send(rt, pb::GroupSendRequestLightweight { keys: vec![0], datagrams: vec![client_tuple(&focus, &g1).unwrap()], sender_option: None }), "resp-err", "group_send before open");
            check(self.out, "fpga_state-before-open", &sw.fpga_state(rt).1, "resp-err", "fpga_state before open");
            check(self.out, "firmware_version-before-open", &sw.firmware_version(rt).1, "resp-err", "firmware_version before open");
            check(self.out, "close-before-open", &sw.close(rt), "resp-err", "close before open");
            // (b) open without geometry: error response, and the server stays closed
            check(self.out, "open-without-geometry", &sw.open(rt, pb::OpenRequestLightweight { geometry: None, sender_option: None }), "resp-err", "(open ~)");
            check(self.out, "send-after-failed-open", &sw.send(rt, send_req(&g1)), "resp-err", "(open ~) then send");
            // (c) a device with every field absent is a default AUTD3 at the origin: the same frames as a direct controller
            let bare = pb::Geometry { devices: vec![pb::geometry::Autd3 { pos: None, rot: None, sound_speed: None }] };
            check(self.out, "open-bare-device", &sw.open(rt, pb::OpenRequestLightweight { geometry: Some(bare), sender_option: None }), "ok", "(open (l (autd3 ~ ~ ~)))");
            let mut dw = DirectWorld::new(rt, 1);
            let (os, od) = (sw.send(rt, send_req(&g1)), dw.send(rt, &focus, None, true));
            self.out.count(&format!("lifecycle:bare-device-frames:{}", os.class()));
            if os != od {
                self.out.violation(key("open-bare-device"), format!("device with all fields absent: server {} | direct controller with AUTD3 at the origin {}", os.text(), od.text()), vec!["(open (l (autd3 ~ ~ ~)))".into(), format!("frames {} ~", focus.text())]);
            }
            // (d) a second open (two devices, rotated) replaces the controller: the link is closed and opened again,
            // the new device count holds, frames are those of a fresh direct controller
            let g2 = geometry_v(2, 1);
            check(self.out, "second-open", &sw.open(rt, pb::OpenRequestLightweight { geometry: Some((&g2).into()), sender_option: None }), "ok", "second open");
            {
                let r = sw.rec.lock().unwrap_or_else(|e| e.into_inner());
                if r.opens != 2 || r.closes != 1 || r.cpus.len() != 2 {
                    self.out.violation(key("second-open"), format!("after a second open the link saw {} opens / {} closes and has {} devices (expected 2 / 1 / 2)", r.opens, r.closes, r.cpus.len()), vec!["open (1 device) then open (2 devices)".into()]);
                }
            }
            let mut dw2 = DirectWorld::new_v(rt, 2, 1);
            let (os, od) = (sw.send(rt, send_req(&g2)), dw2.send(rt, &focus, None, true));
            if os != od {
                self.out.violation(key("second-open"), format!("after a second open: server {} | fresh direct controller {}", os.text(), od.text()), vec![open_text(2, 1), format!("frames {} ~", focus.text())]);
            }
            let (sv, so) = sw.firmware_version(rt);
            let (dv, dout) = dw2.firmware_version(rt);
            if sv != dv || so != dout {
                self.out.violation(key("second-open"), format!("firmware_version after a second open: server [{sv}] {} | direct [{dv}] {}", so.text(), dout.text()), vec!["second open then firmware_version".into()]);
            }
            // (e) close, then every RPC is refused again; a second close is refused, too
            check(self.out, "close", &sw.close(rt), "ok", "close");
            if sw.rec.lock().unwrap_or_else(|e| e.into_inner()).open {
                self.out.violation(key("close"), "the link is still open after `close`".into(), vec!["close".into()]);
            }
            check(self.out, "send-after-close", &sw.send(rt, send_req(&g2)), "resp-err", "close then send");
            check(self.out, "fpga_state-after-close", &sw.fpga_state(rt).1, "resp-err", "close then fpga_state");
            check(self.out, "close-after-close", &sw.close(rt), "resp-err", "close then close");
            self.out.case(Some(fnv64(b"lifecycle")));
        }
    }

    /// One send behind a link that withholds the acknowledgement for `hold` receives after every frame (oracle only).
    /// Behind an immediately acknowledging link `SenderOption::timeout` / `receive_interval` and the merged
    /// `DatagramOption::timeout` of a pair are unobservable; here they decide between `ok` (all frames) and
    /// `ConfirmResponseFailed` (after the first frame), and the time a send takes. Outcomes are chosen to be far from
    /// the deciding time (never acknowledged vs. zero / 5 ms timeout; acknowledged after 40-50 ms vs. 20 ms / 200 ms / 10 s);
    /// a mismatch is reported only if it shows in three attempts with fresh worlds (wall-clock timeouts).
    fn delayed(&mut self, name: &str, hold: usize, tuples: &[Sx], keys: Option<&[i32]>, so: Option<&Sx>, min_elapsed: Option<Duration>) {
        let rt = self.rt;
        let relax = n("t1", vec![n("steps", vec![a(10), a(40), b(false)])]);
        let geo = geometry_v(self.n, self.gv);
        let mut last = String::new();
        let mut class = String::new();
        for attempt in 0..3 {
            self.pair = None;
            let (sw, dw) = self.worlds();
            let relax_req = pb::SendRequestLightweight { datagram: Some(client_tuple(&relax, &geo).unwrap()), sender_option: None };
            sw.send(rt, relax_req);
            dw.send(rt, &relax, None, true);
            for rec in [&sw.rec, &dw.rec] {
                rec.lock().unwrap_or_else(|e| e.into_inner()).hold = hold;
            }
            let msgs: Vec<pb::DatagramTuple> = tuples.iter().map(|t| client_tuple(t, &geo).unwrap()).collect();
            let t0 = std::time::Instant::now();
            let os = match keys {
                None => sw.send(rt, pb::SendRequestLightweight { datagram: Some(msgs[0].clone()), sender_option: so.map(sopt_to_msg) }),
                Some(k) => sw.group_send(rt, pb::GroupSendRequestLightweight { keys: k.to_vec(), datagrams: msgs.clone(), sender_option: so.map(sopt_to_msg) }),
            };
            let elapsed = t0.elapsed();
            let od = match keys {
                None => dw.send(rt, &tuples[0], so, true),
                Some(k) => dw.group_send(rt, k, tuples, so),
            };
            class = os.class().to_string();
            let mut bad = None;
            if os != od {
                bad = Some(format!("server: {} | direct: {}", os.text(), od.text()));
            } else if let Some(m) = min_elapsed {
                if os.class() == "ok" && elapsed < m * 9 / 10 {
                    bad = Some(format!("the server needed only {elapsed:?}; with the receive interval / timeout of the request at least {m:?}"));
                }
            }
            match bad {
                None => {
                    last.clear();
                    break;
                }
                Some(w) => {
                    last = w;
                    self.out.count(&format!("delayed-ack:retry:{attempt}"));
                }
            }
        }
        self.pair = None;
        self.out.case(Some(fnv64(format!("delayed {name}").as_bytes())));
        self.out.count(&format!("delayed-ack:{name}:{class}"));
        if !last.is_empty() {
            let mut replay = vec![format!("link withholds the acknowledgement for {} receives after every frame", if hold == usize::MAX { "all".to_string() } else { hold.to_string() })];
            match keys {
                None => replay.push(format!("frames {} {}", tuples[0].text(), so.map(|s| s.text()).unwrap_or("~".into()))),
                Some(k) => replay.push(format!("group_send keys {k:?} {} {}", tuples.iter().map(|t| t.text()).collect::<Vec<_>>().join(" "), so.map(|s| s.text()).unwrap_or("~".into()))),
            }
            if let Some(obs) = name.strip_prefix("observation:") {
                // not the property (frames and device state are the same): recorded as a note, see the call site
                self.out.count(&format!("delayed-ack:observation:{obs}"));
                self.out.notes.push(format!("observation {obs}: {last} [{}]", replay.join(" ; ")));
            } else {
                self.out.violation(format!("C20:delayed-ack:{name}"), format!("{name} (3 attempts): {last}"), replay);
            }
        }
    }

    /// a (possibly malformed) request through a scratch server
    fn srv(&mut self, req: &Sx, mu: Option<&Mutation>) {
        let nn = self.n;
        let rt = self.rt;
        let o = self.scratch().send(rt, x_send(req));
        let (ans, class) = match o.class() {
            "ok" | "resp-err" | "emu-panic" => ("ok".to_string(), "ok"),
            "status" => (o.status.clone(), "err"),
            _ => ("panic".to_string(), "panic"),
        };
        let op = format!("srv {nn} {}", req.text());
        self.out.line(&op, &ans);
        if let Some(mu) = mu {
            self.expect(mu, class, &op);
        }
        if class == "panic" || o.class() == "emu-panic" {
            self.scratch = None;
        }
    }

    /// a (possibly malformed) group request through a scratch server
    fn gsrv_raw(&mut self, req: &Sx, mu: Option<&Mutation>) {
        let nn = self.n;
        let rt = self.rt;
        let o = self.scratch().group_send(rt, x_group(req));
        let (ans, class) = match o.class() {
            "ok" | "emu-panic" => ("ok".to_string(), "ok"),
            "resp-err" if o.status.contains("Length of keys") => ("len-mismatch".to_string(), "err"),
            "resp-err" => ("ok".to_string(), "ok"),
            "status" => (o.status.clone(), "err"),
            _ => ("panic".to_string(), "panic"),
        };
        let op = format!("gsrv {nn} {}", req.text());
        self.out.line(&op, &ans);
        self.out.count(&format!("group-malformed:{}", ans.split(' ').take(2).collect::<Vec<_>>().join("-")));
        if let Some(mu) = mu {
            self.expect(mu, class, &op);
        }
        if class == "panic" || o.class() == "emu-panic" {
            self.scratch = None;
        }
    }

    fn gsrv(&mut self, keys: &[i32], tuples: &[Sx], so: Option<&Sx>, compare: bool) {
        let nn = self.n;
        let geo = geometry_v(self.n, self.gv);
        let msgs: Vec<pb::DatagramTuple> = match guarded(|| tuples.iter().map(|t| client_tuple(t, &geo)).collect::<Result<Vec<_>, _>>()) {
            Ok(Ok(m)) => m,
            Ok(Err(_)) => return,
            Err(p) => {
                let key = if p.contains("lightweight/client.rs") || p.contains("datagram/force_fan.rs") || p.contains("datagram/reads_fpga_state.rs") {
                    "C20:client-entry-point-unwraps".to_string()
                } else {
                    format!("C20:client-panic:group_send:{}", panic_key(&p))
                };
                self.out.violation(key, format!("client conversion panics: {p}"), tuples.iter().map(|t| format!("tomsg {}", t.text())).collect());
                return;
            }
        };
        let req = pb::GroupSendRequestLightweight { keys: keys.to_vec(), datagrams: msgs.clone(), sender_option: so.map(sopt_to_msg) };
        let req_sx = n("gsend", vec![lst(keys.iter().map(a).collect()), lst(msgs.iter().map(m_tuple).collect()), opt(req.sender_option.as_ref(), m_sopt)]);
        let rt = self.rt;
        let replay = vec![format!("gsrv {nn} {}", req_sx.text())];
        self.out.case(Some(fnv64(replay[0].as_bytes())));
        let t0 = std::time::Instant::now();
        let os = self.worlds().0.group_send(rt, req);
        let elapsed = t0.elapsed();
        if let Some(s) = so {
            let interval = Duration::from_nanos(s.at(1).u());
            if interval >= Duration::from_millis(20) && os.class() == "ok" && os.frames >= 2 && elapsed < interval * (os.frames as u32 - 1) * 9 / 10 {
                self.out.violation(
                    "C20:sopt-ignored:group_send".into(),
                    format!("{} frames with send interval {interval:?} took the server only {elapsed:?}", os.frames),
                    replay.clone(),
                );
            }
        }
        let ans = match os.class() {
            "ok" | "emu-panic" => "ok".to_string(),
            "resp-err" if os.status.contains("Length of keys") => "len-mismatch".to_string(),
            "resp-err" => "ok".to_string(),
            "status" => os.status.clone(),
            _ => "panic".to_string(),
        };
        self.out.line(&replay[0], &ans);
        self.out.count(&format!("group-outcome:{}", if ans == "ok" { os.class().to_string() } else { ans.clone() }));
        if os.class() == "resp-err" {
            let msg: String = os.status.chars().filter(|c| !c.is_ascii_digit()).take(60).collect();
            self.out.count(&format!("group-err:{msg}"));
        }
        if os.class() == "panic" {
            self.out.violation("C20:panic:group_send".into(), os.status.clone(), replay.clone());
        }
        if compare {
            let od = self.worlds().1.group_send(rt, keys, tuples, so);
            let greedy = tuples.iter().any(has_greedy);
            // when several tuples of a group are invalid, which error is reported depends on HashMap order
            let both_err = os.class() == "resp-err" && od.class() == "resp-err";
            let same = if greedy {
                os.class() == od.class() && os.frames == od.frames
            } else if both_err {
                os.frames == od.frames && os.fh == od.fh && os.obs == od.obs
            } else {
                os == od
            };
            if !same {
                self.out.violation("C20:frames:group_send".into(), format!("server: {} | direct: {}", os.text(), od.text()), replay);
            }
            if !same || os.class() != "ok" || greedy {
                self.pair = None;
            }
        } else {
            self.pair = None;
        }
    }
}

pub fn run(args: &Args) {
    let thorough = args.tier == "thorough";
    let mut out = Out::new(&args.out);
    let rt = tokio::runtime::Builder::new_current_thread().enable_time().build().unwrap();
    // `Controller::drop` asks for the current runtime handle: keep the context entered while worlds are dropped
    let _guard = rt.enter();
    out.line(&format!("defaults {}", defaults_sx().text()), "ok");
    let mut cx = Cx { rt: &rt, out: &mut out, n: 2, gv: 0, force_key: None, geo: geometry(2), pair: None, scratch: None };
    let seed = args.seed ^ 0xC20C_20C2_0C20;

    // ---- corpus: witnesses of defects found on the unchanged tree, stable keys, always first -------------
    {
        let mut r = Rng::new(7);
        // (1) ForceFan / ReadsFPGAState whose flag vector is shorter than the device list
        for tag in ["fan", "reads"] {
            for v in [vec![true], vec![], vec![true, false, true]] {
                let req = n("send", vec![n("tuple", vec![n("d", vec![n(tag, vec![lst(v.iter().map(|x| b(*x)).collect())])]), none()]), none()]);
                let mu = Mutation { path: vec![], value: None, must_fail: true, name: format!("{tag}.len={}", v.len()) };
                cx.srv(&req, Some(&mu));
            }
        }
        // (2) FixedUpdateRate 65537 (wraps to 1 under `as u16`)
        let d = n("rate", vec![a(3), a(7)]);
        cx.conversions(&d, usize::MAX, &mut r);
        // (3) direction vectors whose renormalisation moves the last bit
        let dirv = n("p", vec![a(3206476060u32), a(1060356180u32), a(1051883658u32)]);
        cx.conversions(&n("plane", vec![dirv.clone(), n("o", vec![a(200), a(17)])]), usize::MAX, &mut r);
        cx.conversions(&n("bessel", vec![n("p", vec![fb(10.), fb(20.), fb(150.)]), dirv.clone(), fb(0.3), n("o", vec![a(200), a(17)])]), usize::MAX, &mut r);
        // (4) completion time with a sub-microsecond part / beyond 2^32 µs: refused by the device when sent directly
        for (i, p) in [(25_500u64, 1_000_000u64), (250_000, 1_000_000_000 * 4295 + 25_000), (250_000, 1_000_000)] {
            let d = n("time", vec![a(i), a(p), b(true)]);
            cx.conversions(&d, usize::MAX, &mut r);
            cx.frames(&n("t1", vec![d]), None);
        }
        // (5) ForceFan / ReadsFPGAState through the client's own entry point
        for tag in ["fan", "reads"] {
            let d = n(tag, vec![lst(vec![b(true), b(false)])]);
            cx.conversions(&d, usize::MAX, &mut r);
            cx.frames(&n("t1", vec![d]), None);
        }
        cx.pair = None;
    }

    // ---- probe: does the server honour the sound speed of the client's geometry? (stable key) ---------------
    let sound_speed_honoured = cx.sound_speed_probe();

    // ---- conversions of every kind with unrestricted values -------------------------------------------------
    let reps = if thorough { 24 } else { 3 };
    {
        let mut g = Gen { r: Rng::new(seed ^ 1), nice: false };
        let mut r = Rng::new(seed ^ 2);
        for rep in 0..reps {
            for k in 0..NKINDS {
                g.nice = rep % 3 == 2;
                let d = g.dg_kind(k, 2);
                if !has_model_form(&d) {
                    continue;
                }
                cx.conversions(&d, if thorough { usize::MAX } else { 24 }, &mut r);
            }
        }
        // directed: every holographic gain with every emission-constraint variant at its boundary values (a Multiply
        // factor above 1, 0 and negative; Uniform / Clamp end points) - the random constraint above is one draw per gain
        g.nice = true;
        let cons: Vec<Sx> = vec![
            n("norm", vec![]),
            n("mul", vec![fb(0.5)]), n("mul", vec![fb(1.0)]), n("mul", vec![fb(1.5)]), n("mul", vec![fb(4.0)]),
            n("mul", vec![fb(0.0)]), n("mul", vec![fb(-0.5)]),
            n("uni", vec![a(0)]), n("uni", vec![a(255)]), n("clamp", vec![a(0), a(255)]), n("clamp", vec![a(10), a(10)]),
        ];
        for k in 0..NKINDS {
            let d = g.dg_kind(k, 2);
            let Sx::L(items) = &d else { continue };
            let is_holo = matches!(items.first(), Some(Sx::A(h)) if ["naive", "gs", "gspat", "lm", "greedy"].contains(&h.as_str()));
            if !is_holo || items.len() < 3 || !has_model_form(&d) {
                continue;
            }
            for c in &cons {
                let mut it = items.clone();
                it[2] = c.clone();
                cx.out.count("directed holo constraint cases");
                cx.conversions(&Sx::L(it), if thorough { usize::MAX } else { 4 }, &mut r);
            }
        }
        // sender options
        for _ in 0..(if thorough { 300 } else { 40 }) {
            let so = g.sopt();
            let m = m_sopt(&sopt_to_msg(&so));
            cx.out.line(&format!("soptmsg {}", so.text()), &format!("ok {}", m.text()));
            let op = format!("leaf sopt {}", m.text());
            let got = leaf("sopt", &m);
            cx.out.line(&op, &got);
            // timer_resolution is a NonZeroU32 and intervals fit u64 nanoseconds in every generated option
            let exact = so.at(1).u() < u64::MAX && so.at(2).u() < u64::MAX;
            if exact && got != format!("ok {}", so.text()) {
                cx.out.violation("C20:roundtrip:sopt".into(), format!("sent {} rebuilt {got}", so.text()), vec![op.clone()]);
            }
            let mut ms = vec![];
            mutations(&m, &mut vec![], &mut ms);
            for mu in ms {
                let mt = apply(&m, &mu);
                let op = format!("leaf sopt {}", mt.text());
                let got = leaf("sopt", &mt);
                cx.out.line(&op, &got);
                cx.expect(&mu, got.split(' ').next().unwrap(), &op);
            }
            cx.out.case(Some(fnv64(so.text().as_bytes())));
        }
    }

    // ---- frames and device state: server vs direct ------------------------------------------------------------
    {
        let mut g = Gen { r: Rng::new(seed ^ 3), nice: true };
        let reps = if thorough { 12 } else { 3 };
        for rep in 0..reps {
            // histories: the two worlds live through the whole repetition
            cx.n = [2, 1, 3][rep % 3];
            // the geometry the client hands to `open`: every (device count, rotated or not) combination over six repetitions
            cx.gv = [0, 1, 1, 1, 0, 0][rep % 6];
            // (with per-device sound speeds as well, once the server takes them over: until then every phase differs)
            if cx.gv == 1 && sound_speed_honoured {
                cx.gv = 2;
            }
            cx.geo = geometry_v(cx.n, cx.gv);
            cx.pair = None;
            cx.scratch = None;
            // the power-on silencer is strict (10/40 steps) and would reject every STM below: relax it first
            let relax = n("t1", vec![n("steps", vec![a(10), a(40), b(false)])]);
            cx.frames(&relax, None);
            let mut order: Vec<usize> = (0..NKINDS).collect();
            for i in (1..order.len()).rev() {
                order.swap(i, g.r.below(i as u64 + 1) as usize);
            }
            for k in order {
                let d = g.dg_kind(k, cx.n);
                cx.frames(&n("t1", vec![d]), None);
                if k == 0 || (4..=6).contains(&k) {
                    cx.frames(&relax, None);
                }
            }
            // the read-back RPCs after the history: power-on (no device reads its state), then after a ReadsFPGAState
            // with mixed flags and an asserted thermal sensor on one emulator
            cx.rpcs("after-history");
            {
                let flags: Vec<bool> = (0..cx.n).map(|i| (i + rep) % 2 == 0 || cx.n == 1).collect();
                cx.frames(&n("t2", vec![n("null", vec![]), n("reads", vec![lst(flags.iter().map(|x| b(*x)).collect())])]), None);
                cx.thermal(rep % cx.n);
                cx.rpcs("after-reads(mixed)+thermal");
                cx.thermal((rep + 1) % cx.n);
                cx.frames(&n("t2", vec![n("null", vec![]), n("reads", vec![lst(flags.iter().map(|x| b(!*x)).collect())])]), None);
                cx.rpcs("after-reads(inverted)+thermal");
            }
            // pairs: every (modulation, gain) shape statically typed, the rest through DynPair
            for _ in 0..(if thorough { 40 } else { 24 }) {
                let (x, y) = if g.r.chance(1, 2) {
                    let m = if g.r.chance(1, 4) {
                        let m = g.modulation();
                        if g.r.chance(1, 2) {
                            n("wseg", vec![m, a(g.r.below(2)), g.tr_for(false, false)])
                        } else {
                            let l = g.lb();
                            let t = g.tr_for(l.head() == "fin", false);
                            n("wloop", vec![m, l, a(g.r.below(2)), t])
                        }
                    } else {
                        g.modulation()
                    };
                    let gg = g.gain_det();
                    (m, gg)
                } else {
                    let (ka, kb) = (g.r.below(NKINDS as u64) as usize, g.r.below(NKINDS as u64) as usize);
                    (g.dg_kind(ka, cx.n), g.dg_kind(kb, cx.n))
                };
                let touches_silencer = [&x, &y].iter().any(|d| ["clear", "steps", "time"].contains(&d.head()));
                cx.frames(&n("t2", vec![x, y]), None);
                if touches_silencer {
                    cx.frames(&relax, None);
                }
            }
            // sender options: the only observable effect of a SenderOption behind an immediately acknowledging link is
            // timing; a three-frame GainSTM sent with a 30 ms send interval must take the server at least two
            // intervals (checked in `frames`) - only if the option the client sent is the one the server's sender uses
            {
                let gains = lst((0..3).map(|i| n("uniform", vec![a(10 + i), a(20 + i)])).collect());
                let slow = n("sopt", vec![a(30_000_000u64), a(1000), none(), a(2), n("async", vec![none()])]);
                cx.frames(&relax, None);
                cx.frames(&n("t1", vec![n("gstm", vec![gains.clone(), n("div", vec![a(10)]), a(0)])]), Some(&slow));
                cx.gsrv(&vec![0; cx.n], &[n("t1", vec![n("gstm", vec![gains, n("div", vec![a(10)]), a(1)])])], Some(&slow), true);
            }
            for _ in 0..(if thorough { 24 } else { 12 }) {
                let k = g.r.below(NKINDS as u64) as usize;
                let d = g.dg_kind(k, cx.n);
                let so = g.sopt();
                let touches_silencer = ["clear", "steps", "time"].contains(&d.head());
                cx.frames(&n("t1", vec![d]), Some(&so));
                if touches_silencer {
                    cx.frames(&relax, None);
                }
            }
            // group_send
            for _ in 0..(if thorough { 24 } else { 10 }) {
                let nt = g.r.range(1, 3) as usize;
                let tuples: Vec<Sx> = (0..nt)
                    .map(|_| {
                        let k = g.r.below(NKINDS as u64) as usize;
                        let d = g.dg_kind(k, cx.n);
                        if g.r.chance(1, 3) {
                            let gg = g.gain_det();
                            n("t2", vec![d, gg])
                        } else {
                            n("t1", vec![d])
                        }
                    })
                    .filter(has_model_form)
                    .collect();
                if tuples.is_empty() {
                    continue;
                }
                // every datagram key used by some device, every device key present (the documented contract);
                // now and then a device without key
                let nt = tuples.len();
                if nt > cx.n {
                    continue;
                }
                // devices without key (negative entry) at ANY position — below, between and above keyed devices —,
                // keys in any order; every datagram key is then given to a distinct random device
                let mut keys: Vec<i32> = (0..cx.n).map(|_| if g.r.chance(1, 3) { -1 - g.r.below(3) as i32 } else { g.r.below(nt as u64) as i32 }).collect();
                let mut pos: Vec<usize> = (0..cx.n).collect();
                for i in (1..pos.len()).rev() {
                    let j = g.r.below(i as u64 + 1) as usize;
                    pos.swap(i, j);
                }
                for (k, p) in pos.iter().take(nt).enumerate() {
                    keys[*p] = k as i32;
                }
                if keys.iter().any(|k| *k < 0) {
                    cx.out.count("group-send:device-without-key");
                }
                let so = if g.r.chance(1, 2) { Some(g.sopt()) } else { None };
                cx.gsrv(&keys, &tuples, so.as_ref(), true);
                if tuples.iter().any(|t| t.items().iter().any(|d| ["clear", "steps", "time"].contains(&d.head()))) {
                    cx.frames(&relax, None);
                }
            }
            // group_send: every key vector with at least one keyless device (negative entry) for 1 and 2 groups:
            // the keyless device below, between and above the keyed ones, keys in both orders
            if cx.n >= 2 {
                for nt in 1..=(cx.n - 1).min(2) {
                    let tuples: Vec<Sx> = (0..nt).map(|_| n("t1", vec![g.gain_det()])).collect();
                    if !tuples.iter().all(has_model_form) {
                        continue;
                    }
                    let base = nt as i32 + 1; // digits: 0 = keyless, 1..=nt = key 0..nt-1
                    for code in 0..base.pow(cx.n as u32) {
                        let mut c = code;
                        let keys: Vec<i32> = (0..cx.n)
                            .map(|_| {
                                let d = c % base;
                                c /= base;
                                d - 1
                            })
                            .collect();
                        let all_used = (0..nt as i32).all(|k| keys.contains(&k));
                        if !all_used || !keys.contains(&-1) {
                            continue;
                        }
                        cx.out.count("group-send:keyless-device-enumerated");
                        cx.gsrv(&keys, &tuples, None, true);
                    }
                }
            }
            // group_send: key vectors that leave a datagram key unused (all devices on key 0, two tuples; one keyed
            // device and a keyless rest): refused by the controller in both worlds, nothing sent
            {
                let tuples: Vec<Sx> = (0..2).map(|_| n("t1", vec![g.gain_det()])).collect();
                if tuples.iter().all(has_model_form) {
                    cx.out.count("group-send:unused-datagram-key");
                    cx.gsrv(&vec![0; cx.n], &tuples, None, true);
                    let mut keys = vec![-1; cx.n];
                    keys[cx.n - 1] = 1;
                    cx.gsrv(&keys, &tuples, None, true);
                }
            }
            // group_send: malformed key vectors (answered with an error response, nothing sent)
            let t = n("t1", vec![n("null", vec![])]);
            for keys in [vec![], vec![0; cx.n + 1], vec![5; cx.n], vec![i32::MAX; cx.n], vec![i32::MIN; cx.n]] {
                cx.gsrv(&keys, &[t.clone()], None, false);
            }
        }
        cx.n = 2;
        cx.gv = 0;
        cx.geo = geometry(2);
        cx.pair = None;
        cx.scratch = None;
    }

    // ---- the other RPCs: before open, malformed open, second open, close -----------------------------------------
    cx.lifecycle();

    // ---- sender options and merged datagram options behind a link with delayed acknowledgements --------------------
    {
        let sopt = |recv_ns: u64, timeout: Option<u64>| n("sopt", vec![a(1_000_000u64), a(recv_ns), opt(timeout, a), a(2), n("async", vec![none()])]);
        let gains = lst((0..3).map(|i| n("uniform", vec![a(10 + i), a(20 + i)])).collect());
        let gstm = n("t1", vec![n("gstm", vec![gains, n("div", vec![a(10)]), a(0)])]);
        let gain = n("t1", vec![n("uniform", vec![a(77), a(3)])]);
        let clear_gain = n("t2", vec![n("clear", vec![]), n("uniform", vec![a(77), a(3)])]);
        let gain_gain = n("t2", vec![n("null", vec![]), n("uniform", vec![a(77), a(3)])]);
        let never = usize::MAX;
        // SenderOption::timeout = 0: nothing is waited for, all three frames go out although no acknowledgement ever arrives
        cx.delayed("timeout=0,never-acked", never, &[gstm.clone()], None, Some(&sopt(1_000_000, Some(0))), None);
        // … = 5 ms: ConfirmResponseFailed after the first frame
        cx.delayed("timeout=5ms,never-acked", never, &[gstm.clone()], None, Some(&sopt(1_000_000, Some(5_000_000))), None);
        // … = 10 s, acknowledged after 10 receives 5 ms apart (50 ms; the Gain's own timeout is 20 ms): ok, and not faster than 50 ms
        cx.delayed("timeout=10s,acked-after-50ms", 10, &[gain.clone()], None, Some(&sopt(5_000_000, Some(10_000_000_000))), Some(Duration::from_millis(50)));
        // … absent: the datagram's own timeout decides (GainSTM 200 ms: ok)
        cx.delayed("timeout=none,gstm,acked-after-50ms", 10, &[gstm.clone()], None, Some(&sopt(5_000_000, None)), Some(Duration::from_millis(150)));
        // the same through group_send (its own branch of the server)
        cx.delayed("group:timeout=0,never-acked", never, &[gstm.clone()], Some(&[0, 0]), Some(&sopt(1_000_000, Some(0))), None);
        cx.delayed("group:timeout=10s,acked-after-50ms", 10, &[gain.clone()], Some(&[0, -1]), Some(&sopt(5_000_000, Some(10_000_000_000))), Some(Duration::from_millis(50)));
        // no sender option at all: the merged DatagramOption of the tuple decides - (Clear, Gain) waits max(200 ms, 20 ms),
        // (Null, Gain) and a Gain alone 20 ms; acknowledged after 40 receives of the default 1 ms interval
        cx.delayed("pair(clear,gain):acked-after-40ms", 40, &[clear_gain], None, None, None);
        cx.delayed("pair(null,gain):acked-after-40ms", 40, &[gain_gain], None, None, None);
        // Observation, not a violation (same frames, same device state; only the reported result differs): the server
        // sends a single datagram as the pair (d, NullDatagram), whose merged timeout is max(d's, 200 ms). A lone Gain
        // (own timeout 20 ms) acknowledged after 40 ms is `ok` through the server and ConfirmResponseFailed directly.
        cx.delayed("observation:lone-gain-waits-200ms-not-20ms", 40, &[gain], None, None, None);
    }

    // ---- malformed requests through the server -------------------------------------------------------------------
    {
        let mut g = Gen { r: Rng::new(seed ^ 4), nice: true };
        let mut r = Rng::new(seed ^ 5);
        let reps = if thorough { 8 } else { 1 };
        let per_case = if thorough { 40 } else { 8 };
        for _ in 0..reps {
            for k in 0..NKINDS {
                let d = g.dg_kind(k, 2);
                if !has_model_form(&d) {
                    continue;
                }
                let t = if g.r.chance(1, 4) {
                    let gg = g.gain_det();
                    n("t2", vec![d, gg])
                } else {
                    n("t1", vec![d])
                };
                let msg = match guarded(|| client_tuple(&t, &cx.geo)) {
                    Ok(Ok(m)) => m,
                    _ => continue,
                };
                let so = if g.r.chance(1, 3) { Some(sopt_to_msg(&g.sopt())) } else { None };
                let req = n("send", vec![m_tuple(&msg), opt(so.as_ref(), m_sopt)]);
                let mut ms = vec![];
                mutations(&req, &mut vec![], &mut ms);
                while ms.len() > per_case {
                    let i = r.below(ms.len() as u64) as usize;
                    ms.swap_remove(i);
                }
                for mu in ms {
                    cx.srv(&apply(&req, &mu), Some(&mu));
                }
                cx.out.case(Some(fnv64(req.text().as_bytes())));
            }
        }
        // the same through `group_send`: every single-site mutation of a whole `(gsend keys (l tuple…) sopt)` request -
        // a required field missing in the first / second / third tuple, a bad number anywhere, a bad sender option
        // inside a group request; the key vector is valid, so only the mutated site can be refused
        for _ in 0..reps {
            for round in 0..(if thorough { 24 } else { 12 }) {
                let nt = 1 + round % 3;
                let mut msgs = vec![];
                while msgs.len() < nt {
                    let k = g.r.below(NKINDS as u64) as usize;
                    let d = g.dg_kind(k, 2);
                    if !has_model_form(&d) {
                        continue;
                    }
                    let t = if g.r.chance(1, 4) {
                        let gg = g.gain_det();
                        n("t2", vec![d, gg])
                    } else {
                        n("t1", vec![d])
                    };
                    if let Ok(Ok(m)) = guarded(|| client_tuple(&t, &cx.geo)) {
                        msgs.push(m);
                    }
                }
                // two devices: keys name the first two tuples (a third one stays unused: refused by the controller
                // after a successful parse, which the model answers `ok`)
                let keys: Vec<i32> = if nt == 1 { vec![0, *g.r.pick(&[0, -1])] } else { vec![1, 0] };
                let so = if round % 2 == 0 { Some(sopt_to_msg(&g.sopt())) } else { None };
                let req = n("gsend", vec![lst(keys.iter().map(a).collect()), lst(msgs.iter().map(m_tuple).collect()), opt(so.as_ref(), m_sopt)]);
                let mut ms = vec![];
                mutations(&req, &mut vec![], &mut ms);
                cx.out.count_n("group-malformed:mutation-sites", ms.len() as u64);
                // keep the mutations of the later tuples and of the sender option in the sample
                let mut keep: Vec<Mutation> = vec![];
                for want in [vec![2usize, nt], vec![3usize]] {
                    let c: Vec<usize> = (0..ms.len()).filter(|&i| ms[i].path.starts_with(&want)).collect();
                    if !c.is_empty() {
                        keep.push(ms[c[r.below(c.len() as u64) as usize]].clone());
                    }
                }
                while ms.len() > per_case {
                    let i = r.below(ms.len() as u64) as usize;
                    ms.swap_remove(i);
                }
                ms.extend(keep);
                for mu in ms {
                    cx.out.count(&format!("group-malformed:site:{}", match mu.path.as_slice() { [2, i, ..] => format!("tuple{i}"), [3, ..] => "sender-option".to_string(), _ => "request".to_string() }));
                    cx.gsrv_raw(&apply(&req, &mu), Some(&mu));
                }
                cx.out.case(Some(fnv64(req.text().as_bytes())));
            }
        }
        // structural malformations of group requests: the parse comes before the key-length test, the sender option after it
        {
            let fail = |name: &str| Mutation { path: vec![], value: None, must_fail: true, name: name.to_string() };
            let ok_t = n("tuple", vec![n("d", vec![n("clear", vec![])]), none()]);
            let waitable = n("sopt", vec![a(1), a(1), none(), a(0), n("wait", vec![])]);
            let cases: Vec<(Sx, &str)> = vec![
                (n("gsend", vec![lst(vec![a(0), a(0)]), lst(vec![ok_t.clone(), n("tuple", vec![none(), none()])]), none()]), "gsend.tuple2.1=~"),
                (n("gsend", vec![lst(vec![a(0), a(1)]), lst(vec![ok_t.clone(), n("tuple", vec![n("d", vec![none()]), none()])]), none()]), "gsend.tuple2.d.1=~"),
                (n("gsend", vec![lst(vec![a(0), a(0)]), lst(vec![ok_t.clone(), n("tuple", vec![n("d", vec![n("clear", vec![])]), n("d", vec![none()])])]), none()]), "gsend.tuple2.2.d.1=~"),
                (n("gsend", vec![lst(vec![]), lst(vec![n("tuple", vec![none(), none()])]), none()]), "gsend.keys=[]+tuple.1=~"),
                (n("gsend", vec![lst(vec![a(0), a(0), a(0)]), lst(vec![ok_t.clone(), n("tuple", vec![none(), none()])]), none()]), "gsend.keys=3+tuple2.1=~"),
                (n("gsend", vec![lst(vec![a(0), a(0)]), lst(vec![ok_t.clone()]), waitable.clone()]), "gsend.sopt.sleeper=waitable"),
                (n("gsend", vec![lst(vec![a(0), a(0)]), lst(vec![ok_t.clone()]), n("sopt", vec![a(1), a(1), none(), a(3), n("std", vec![none()])])]), "gsend.sopt.4=3"),
                (n("gsend", vec![lst(vec![a(0), a(0)]), lst(vec![ok_t.clone()]), n("sopt", vec![a(1), a(1), none(), a(0), none()])]), "gsend.sopt.5=~"),
            ];
            for (req, name) in cases {
                cx.gsrv_raw(&req, Some(&fail(name)));
            }
        }
        // structural malformations
        let cp = |k: usize| lst((0..k).map(|_| n("cp", vec![n("p", vec![fb(1.), fb(2.), fb(150.)]), a(0)])).collect());
        let sc10 = n("sc", vec![n("div", vec![a(10)])]);
        let wrap = |d: Sx| n("send", vec![n("tuple", vec![n("d", vec![d]), none()]), none()]);
        let fail = |name: &str| Mutation { path: vec![], value: None, must_fail: true, name: name.to_string() };
        let cases: Vec<(Sx, &str)> = vec![
            (n("send", vec![none(), none()]), "send.1=~"),
            (n("send", vec![n("tuple", vec![none(), none()]), none()]), "tuple.1=~"),
            (n("send", vec![n("tuple", vec![n("d", vec![none()]), none()]), none()]), "d.1=~"),
            (n("send", vec![n("tuple", vec![n("d", vec![n("clear", vec![])]), n("d", vec![none()])]), none()]), "tuple.2.d.1=~"),
            (wrap(n("foci", vec![lst(vec![]), sc10.clone()])), "foci.empty"),
            (wrap(n("foci", vec![lst(vec![n("cps", vec![cp(0), a(1)])]), sc10.clone()])), "foci.N=0"),
            (wrap(n("foci", vec![lst(vec![n("cps", vec![cp(9), a(1)])]), sc10.clone()])), "foci.N=9"),
            (wrap(n("foci", vec![lst(vec![n("cps", vec![cp(2), a(1)]), n("cps", vec![cp(3), a(1)])]), sc10.clone()])), "foci.N=2,3"),
            (wrap(n("foci", vec![lst(vec![n("cps", vec![cp(3), a(1)]), n("cps", vec![cp(2), a(1)])]), sc10.clone()])), "foci.N=3,2"),
            (wrap(n("wseg", vec![n("foci", vec![lst(vec![]), sc10.clone()]), a(0), none()])), "wseg.foci.empty"),
            (wrap(n("wloop", vec![n("foci", vec![lst(vec![n("cps", vec![cp(9), a(1)])]), sc10.clone()]), n("lb", vec![n("inf", vec![])]), a(0), none()])), "wloop.foci.N=9"),
            (wrap(n("gstm", vec![lst(vec![n("gain", vec![none()])]), sc10.clone(), n("gso", vec![a(0)])])), "gstm.gain=~"),
            (
                n("send", vec![n("tuple", vec![n("d", vec![n("clear", vec![])]), none()]), n("sopt", vec![a(1), a(1), none(), a(0), n("wait", vec![])])]),
                "sopt.sleeper=waitable",
            ),
        ];
        for (req, name) in cases {
            cx.srv(&req, Some(&fail(name)));
        }
    }

    let lines = cx.out.lines;
    cx.out.notes.push(format!("{lines} op lines; conversions use unrestricted bit patterns, frames/state comparisons realistic values"));
    out.finish(
        "lw",
        "model answer == implementation answer on every line (client message text; rebuilt SDK value or error kind of each from_msg; server parse outcome of send and group_send requests incl. mutated group requests); oracle: round trip at bit level, frames+state server vs direct (geometries with rotated/shifted devices: model-invisible), malformed => error and never panic; oracle-only: sound-speed probe, fpga_state/firmware_version RPCs, open/close life cycle, delayed-ack link for sender-option and merged datagram-option timeouts",
    );
}
