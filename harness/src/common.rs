//! Shared helpers: PRNG (xorshift64*, identical to the Lean driver), FNV-1a, hex, output files, report.
#![allow(dead_code)]
use std::collections::BTreeMap;
use std::fmt::Write as _;
use std::io::Write as _;
use std::panic::{AssertUnwindSafe, catch_unwind};

pub struct Rng(pub u64);
impl Rng {
    pub fn new(seed: u64) -> Self {
        Rng(if seed == 0 { 0x9E3779B97F4A7C15 } else { seed })
    }
    pub fn next(&mut self) -> u64 {
        let mut s = self.0;
        s ^= s >> 12;
        s ^= s << 25;
        s ^= s >> 27;
        self.0 = s;
        s.wrapping_mul(0x2545F4914F6CDD1D)
    }
    pub fn below(&mut self, n: u64) -> u64 {
        (self.next() >> 11) % n.max(1)
    }
    pub fn range(&mut self, lo: u64, hi: u64) -> u64 {
        lo + self.below(hi - lo + 1)
    }
    pub fn chance(&mut self, num: u64, den: u64) -> bool {
        self.below(den) < num
    }
    pub fn pick<'a, T>(&mut self, xs: &'a [T]) -> &'a T {
        &xs[self.below(xs.len() as u64) as usize]
    }
}

/// `len` pseudo-random bytes from `seed` (high byte of each output) — same as Lean `prBytes`.
pub fn pr_bytes(seed: u64, len: usize) -> Vec<u8> {
    let mut r = Rng::new(seed);
    (0..len).map(|_| (r.next() >> 56) as u8).collect()
}

pub fn fnv64(bytes: &[u8]) -> u64 {
    let mut h: u64 = 0xcbf29ce484222325;
    for b in bytes {
        h ^= *b as u64;
        h = h.wrapping_mul(0x100000001b3);
    }
    h
}

pub fn hex(bytes: &[u8]) -> String {
    let mut s = String::with_capacity(bytes.len() * 2);
    for b in bytes {
        let _ = write!(s, "{:02x}", b);
    }
    s
}

pub fn unhex(s: &str) -> Option<Vec<u8>> {
    if s.len() % 2 != 0 {
        return None;
    }
    (0..s.len() / 2)
        .map(|i| u8::from_str_radix(&s[2 * i..2 * i + 2], 16).ok())
        .collect()
}

pub fn json_str(s: &str) -> String {
    let mut o = String::from("\"");
    for c in s.chars() {
        match c {
            '"' => o.push_str("\\\""),
            '\\' => o.push_str("\\\\"),
            '\n' => o.push_str("\\n"),
            '\t' => o.push_str("\\t"),
            c if (c as u32) < 0x20 => {
                let _ = write!(o, "\\u{:04x}", c as u32);
            }
            c => o.push(c),
        }
    }
    o.push('"');
    o
}

thread_local! {
    /// source file of the most recent panic (set by the panic hook installed in `main`)
    pub static LAST_PANIC_FILE: std::cell::RefCell<String> = const { std::cell::RefCell::new(String::new()) };
}

pub fn install_panic_hook() {
    std::panic::set_hook(Box::new(|info| {
        let f = info.location().map(|l| l.file().to_string()).unwrap_or_default();
        LAST_PANIC_FILE.with(|c| *c.borrow_mut() = f);
    }));
}

/// run `f`, turning a panic into `Err("<message> @ <source file>")`
pub fn guarded<T>(f: impl FnOnce() -> T) -> Result<T, String> {
    catch_unwind(AssertUnwindSafe(f)).map_err(|e| {
        let msg = e
            .downcast_ref::<String>()
            .cloned()
            .or_else(|| e.downcast_ref::<&str>().map(|s| s.to_string()))
            .unwrap_or_else(|| "panic".to_string());
        let file = LAST_PANIC_FILE.with(|c| c.borrow().clone());
        let file = file.rsplit("/src/").next().unwrap_or("").to_string();
        format!("{msg} @ {file}")
    })
}

/// call-site key of a panic: message with every number replaced by `#`, plus the source file
pub fn panic_key(msg: &str) -> String {
    let mut out = String::new();
    let mut in_num = false;
    for c in msg.chars() {
        if c.is_ascii_digit() {
            if !in_num {
                out.push('#');
            }
            in_num = true;
        } else {
            in_num = false;
            out.push(if c == ' ' { '_' } else { c });
        }
    }
    out
}

// ------------------------------------------------------------------------------------------------
// watchdog: a case that does not terminate is a finding, not a hung check
// ------------------------------------------------------------------------------------------------

static WATCH: std::sync::Mutex<Vec<(std::thread::ThreadId, String, std::time::Instant)>> = std::sync::Mutex::new(Vec::new());

/// Name the case the calling thread is about to run (`unwatch` when it returned). If a case is still running
/// `limit` seconds later, the watchdog writes `<dir>/hang.json` (key, what, replay = the case) and ends the
/// process with exit code 3; the runner turns that file into an oracle violation with the case as replay.
pub fn watch(desc: String) {
    let id = std::thread::current().id();
    let mut w = WATCH.lock().unwrap();
    w.retain(|e| e.0 != id);
    w.push((id, desc, std::time::Instant::now()));
}
pub fn unwatch() {
    let id = std::thread::current().id();
    WATCH.lock().unwrap().retain(|e| e.0 != id);
}
pub fn start_watchdog(dir: &str, limit_secs: u64) {
    let dir = dir.to_string();
    std::thread::spawn(move || loop {
        std::thread::sleep(std::time::Duration::from_millis(500));
        let cur = WATCH.lock().unwrap().clone();
        for (_, desc, t0) in cur {
            if t0.elapsed().as_secs() >= limit_secs {
                let s = format!(
                    "{{\"key\":\"non-termination\",\"what\":{},\"replay\":[{}]}}",
                    json_str(&format!("a call into the implementation did not return within {limit_secs} s")),
                    json_str(&desc)
                );
                let _ = std::fs::write(format!("{dir}/hang.json"), s);
                std::process::exit(3);
            }
        }
    });
}

pub struct Violation {
    /// stable identifier of the failing input/history (matched against known-findings.txt)
    pub key: String,
    pub what: String,
    /// the replay: op lines (or a description) that reproduce it on the implementation
    pub replay: Vec<String>,
    /// 1-based number of the op line on which it showed (0 = not tied to one line). A known finding
    /// only suppresses a violation whose line the model answers identically (i.e. the model exhibits
    /// the same, recorded, defect); otherwise it is a different violation with the same symptom.
    pub line: u64,
}

/// Collects the two files of the correspondence check plus the oracle's findings and statistics.
pub struct Out {
    ops: std::io::BufWriter<std::fs::File>,
    imp: std::io::BufWriter<std::fs::File>,
    dir: String,
    pub lines: u64,
    pub cases: u64,
    pub nontrivial: std::collections::HashSet<u64>,
    pub dist: BTreeMap<String, u64>,
    pub violations: Vec<Violation>,
    pub samples: Vec<String>,
    pub notes: Vec<String>,
}

impl Out {
    pub fn new(dir: &str) -> Self {
        std::fs::create_dir_all(dir).unwrap();
        Out {
            ops: std::io::BufWriter::new(std::fs::File::create(format!("{dir}/ops.txt")).unwrap()),
            imp: std::io::BufWriter::new(std::fs::File::create(format!("{dir}/impl.txt")).unwrap()),
            dir: dir.to_string(),
            lines: 0,
            cases: 0,
            nontrivial: Default::default(),
            dist: Default::default(),
            violations: vec![],
            samples: vec![],
            notes: vec![],
        }
    }
    /// one request line and the implementation's canonical answer to it
    pub fn line(&mut self, op: &str, answer: &str) {
        debug_assert!(!op.contains('\n') && !answer.contains('\n'));
        writeln!(self.ops, "{op}").unwrap();
        writeln!(self.imp, "{answer}").unwrap();
        self.lines += 1;
    }
    pub fn count(&mut self, key: &str) {
        *self.dist.entry(key.to_string()).or_insert(0) += 1;
    }
    pub fn count_n(&mut self, key: &str, n: u64) {
        *self.dist.entry(key.to_string()).or_insert(0) += n;
    }
    /// register a case; `sig` identifies it for the distinct-non-trivial count (None = trivial)
    pub fn case(&mut self, sig: Option<u64>) {
        self.cases += 1;
        if let Some(s) = sig {
            self.nontrivial.insert(s);
        }
    }
    pub fn sample(&mut self, s: String) {
        if self.samples.len() < 6 {
            self.samples.push(s);
        }
    }
    pub fn violation(&mut self, key: String, what: String, replay: Vec<String>) {
        self.violation_at(key, what, replay, 0)
    }
    pub fn violation_at(&mut self, key: String, what: String, replay: Vec<String>, line: u64) {
        // one entry per key, but keep up to 40 distinct lines of the same key (the runner needs them
        // to tell a recorded finding from a new cause with the same symptom)
        let same = self.violations.iter().filter(|v| v.key == key).count();
        if (line == 0 && same > 0) || same >= 40 {
            return;
        }
        if self.violations.len() < 400 {
            self.violations.push(Violation { key, what, replay, line });
        }
    }
    pub fn finish(mut self, stream: &str, rule: &str) {
        self.ops.flush().unwrap();
        self.imp.flush().unwrap();
        let mut s = String::new();
        let _ = write!(
            s,
            "{{\"stream\":{},\"lines\":{},\"cases\":{},\"distinct_nontrivial\":{},\"rule\":{},",
            json_str(stream),
            self.lines,
            self.cases,
            self.nontrivial.len(),
            json_str(rule)
        );
        s.push_str("\"distribution\":{");
        let mut first = true;
        for (k, v) in &self.dist {
            if !first {
                s.push(',');
            }
            first = false;
            let _ = write!(s, "{}:{}", json_str(k), v);
        }
        s.push_str("},\"samples\":[");
        for (i, x) in self.samples.iter().enumerate() {
            if i > 0 {
                s.push(',');
            }
            s.push_str(&json_str(x));
        }
        s.push_str("],\"notes\":[");
        for (i, x) in self.notes.iter().enumerate() {
            if i > 0 {
                s.push(',');
            }
            s.push_str(&json_str(x));
        }
        s.push_str("],\"violations\":[");
        for (i, v) in self.violations.iter().enumerate() {
            if i > 0 {
                s.push(',');
            }
            let _ = write!(s, "{{\"key\":{},\"what\":{},\"line\":{},\"replay\":[", json_str(&v.key), json_str(&v.what), v.line);
            for (j, l) in v.replay.iter().enumerate() {
                if j > 0 {
                    s.push(',');
                }
                s.push_str(&json_str(l));
            }
            s.push_str("]}");
        }
        s.push_str("]}");
        std::fs::write(format!("{}/report.json", self.dir), s).unwrap();
    }
}

pub struct Args {
    pub stream: String,
    pub tier: String,
    pub seed: u64,
    pub out: String,
    pub replay: Option<String>,
    pub extra: Vec<String>,
}

pub fn parse_args() -> Args {
    let mut a = Args {
        stream: String::new(),
        tier: "quick".into(),
        seed: 1,
        out: "/verif/work/tmp".into(),
        replay: None,
        extra: vec![],
    };
    let mut it = std::env::args().skip(1);
    while let Some(x) = it.next() {
        match x.as_str() {
            "--tier" => a.tier = it.next().unwrap(),
            "--seed" => a.seed = it.next().unwrap().parse().unwrap_or(1),
            "--out" => a.out = it.next().unwrap(),
            "--replay" => a.replay = it.next(),
            _ if a.stream.is_empty() => a.stream = x,
            _ => a.extra.push(x),
        }
    }
    a
}
