//! `holo` stream (C15): the holographic gains of `autd3-gain-holo`.
//!
//! CORPUS (first, stable keys): the fix-1 witnesses (GS / GSPAT with a 0 Pa request under
//! `Clamp(lo > 0, _)`) and the witness of the known finding `holo:single-pressure:linear-solver-clips`.
//!
//! PART A — correspondence with the Lean model (`Model/Holo.lean`), integer-level facts only:
//!   `conv`   the real `EmissionConstraint::convert` on f32 bit patterns (boundary pool x pool, values a
//!            few ulps around every rounding boundary of Clamp / Normalize / Multiply, NaN, +-inf,
//!            subnormals, inverted bounds);
//!   `cols`   the real `NalgebraBackend::<T4010A1>::generate_propagation_matrix` on small hand-made
//!            geometries (1..5 devices of 1..7 transducers, every device with its own pose and sound
//!            speed, any enable mask, no / all-true / partial / empty / short / long filters, foci
//!            count on both sides of `num_devices < foci.len()`): every matrix entry is identified
//!            *by value* (bit-exact) with the `propagate(tr, focus)` it must be, which gives the
//!            transducer each column belongs to (`?` = not the propagation of one transducer to the
//!            foci in order);
//!   `map`    the real `Naive::init_full` -> `generate_result` -> `generate` -> `calc` with a probe
//!            backend that delegates everything to `NalgebraBackend` but overwrites the solution
//!            vector with `q[i] = code(i)`; the drive of a transducer then tells which entry it read;
//!   `greedy` the intensities the real `Greedy` returns (phases depend on a thread-local shuffle).
//! plus an index-level oracle on the implementation alone: the entry a transducer reads is the one
//! whose matrix column is that transducer's.
//!
//! PART B — the implementation oracle (NUMERICAL SUPPORT CHECKS, not proof): 1..4 real AUTD3 devices,
//! all five solvers, both directivities, 1..8 targets 100..300 mm above the array, >= 20 mm apart; the
//! field at the targets is evaluated in f64 from the returned drives with
//! `autd3_core::acoustics::propagate`.  Thresholds (`TH_*`) were fixed after measuring the unchanged
//! code over many seeds; the extremes measured by each run are written into the distribution
//! (`measured x1e4 ...`).  Exact checks: the constraint on every returned intensity (and `Drive::NULL`
//! outside the filter); byte-identical drives with disabled devices inserted and / or an all-true filter.
//! After the coverage review (notes/coverage-review/C11-C15.md, C15; all oracle-only, see the `B ...` counters):
//! PARTIAL filters for all five solvers (a device may be missing from the filter) with the exact oracle
//! "filter = no filter on the geometry of the selected transducers only"; a third of the cases on devices
//! with their own tilt and sound speed (`make_geo_posed`); non-default solver options (`Opt`: repeat,
//! phase_div, LM initial / k_max) under the exact clauses, Greedy's phases checked against its candidates;
//! the known-finding exemption restricted to its documented conditions (`is_known_clip`).
//!
//! `vh holo single` / `vh holo zero` print the calibration measurements (error distribution of a single
//! target per solver; behaviour for degenerate amplitudes) instead of running the stream.
use crate::common::*;
use autd3::prelude::*;
use autd3_core::acoustics::{directivity::Directivity, propagate};
use autd3_core::gain::{BitVec, Gain, GainCalculator, GainCalculatorGenerator};
use autd3_core::geometry::{Device, Transducer};
use autd3_gain_holo::*;
use std::collections::{BTreeMap, HashMap};
use std::sync::Arc;

// ------------------------------------------------------------------------------------ solvers

#[derive(Clone, Copy, PartialEq, Debug)]
pub enum Solver {
    Naive,
    GS,
    GSPAT,
    LM,
    Greedy,
}
pub const SOLVERS: [Solver; 5] = [Solver::Naive, Solver::GS, Solver::GSPAT, Solver::LM, Solver::Greedy];
impl Solver {
    fn linear(self) -> bool {
        matches!(self, Solver::Naive | Solver::GS | Solver::GSPAT)
    }
    fn default_constraint(self) -> EmissionConstraint {
        match self {
            Solver::Greedy => GreedyOption::<Sphere>::default().constraint,
            Solver::Naive => NaiveOption::<Sphere>::default().constraint,
            Solver::GS => GSOption::<Sphere>::default().constraint,
            Solver::GSPAT => GSPATOption::<Sphere>::default().constraint,
            Solver::LM => LMOption::<Sphere>::default().constraint,
        }
    }
}

/// per device index: the drives of an enabled device, `None` for a disabled one
pub type Drives = Vec<Option<Vec<Drive>>>;
pub type Filter = HashMap<usize, BitVec>;

fn collect<G: Gain>(g: G, geo: &Geometry, filter: Option<&Filter>) -> Result<Drives, String> {
    let r = guarded(|| -> Result<Drives, String> {
        let mut gen_ = g.init_full(geo, filter, false).map_err(|e| format!("err:{e}"))?;
        let mut out: Drives = geo.iter().map(|_| None).collect();
        for dev in geo.devices() {
            let c = gen_.generate(dev);
            out[dev.idx()] = Some(dev.iter().map(|tr| c.calc(tr)).collect());
        }
        Ok(out)
    });
    match r {
        Ok(x) => x,
        Err(p) => Err(format!("panic:{p}")),
    }
}

/// solver options other than the constraint (`None` = the solver's default) — coverage review C15 gap 3
#[derive(Clone, Debug, Default, PartialEq)]
pub struct Opt {
    /// GS / GSPAT: number of iterations (default 100)
    pub repeat: Option<usize>,
    /// Greedy: number of phase candidates (default 16)
    pub phase_div: Option<u8>,
    /// LM: the start vector, of length (selected transducers + foci): seed 0 = explicit zeros, otherwise
    /// pseudo-random phases in [-pi, pi) (default: empty = zeros)
    pub lm_initial: Option<u64>,
    /// LM: iteration bound (default 5)
    pub lm_k_max: Option<usize>,
}
impl Opt {
    pub fn is_default(&self) -> bool {
        *self == Opt::default()
    }
    pub fn tok(&self) -> String {
        let mut v = vec![];
        if let Some(r) = self.repeat {
            v.push(format!("repeat{r}"));
        }
        if let Some(d) = self.phase_div {
            v.push(format!("phasediv{d}"));
        }
        if let Some(i) = self.lm_initial {
            v.push(format!("initial{i}"));
        }
        if let Some(k) = self.lm_k_max {
            v.push(format!("kmax{k}"));
        }
        if v.is_empty() { "default".into() } else { v.join("+") }
    }
}

/// number of transducers the solver works on: of the enabled devices, inside the filter
pub fn selected_count(geo: &Geometry, filter: Option<&Filter>) -> usize {
    geo.devices()
        .map(|dev| match filter {
            None => dev.num_transducers(),
            Some(f) => f.get(&dev.idx()).map(|b| dev.iter().filter(|tr| b[tr.idx()]).count()).unwrap_or(0),
        })
        .sum()
}

pub fn solve<D: Directivity + 'static>(
    s: Solver,
    foci: &[(Point3, f32)],
    c: Option<EmissionConstraint>,
    geo: &Geometry,
    filter: Option<&Filter>,
    opt: &Opt,
) -> Result<Drives, String> {
    let f: Vec<(Point3, Amplitude)> = foci.iter().map(|(p, a)| (*p, *a * Pa)).collect();
    let backend = Arc::new(NalgebraBackend::<D>::new());
    let nz = |x: usize| std::num::NonZeroUsize::new(x.max(1)).unwrap();
    match s {
        Solver::Naive => {
            let mut o = NaiveOption::<D>::default();
            if let Some(c) = c {
                o.constraint = c;
            }
            collect(Naive::new(f, o, backend), geo, filter)
        }
        Solver::GS => {
            let mut o = GSOption::<D>::default();
            if let Some(c) = c {
                o.constraint = c;
            }
            if let Some(r) = opt.repeat {
                o.repeat = nz(r);
            }
            collect(GS::new(f, o, backend), geo, filter)
        }
        Solver::GSPAT => {
            let mut o = GSPATOption::<D>::default();
            if let Some(c) = c {
                o.constraint = c;
            }
            if let Some(r) = opt.repeat {
                o.repeat = nz(r);
            }
            collect(GSPAT::new(f, o, backend), geo, filter)
        }
        Solver::LM => {
            let mut o = LMOption::<D>::default();
            if let Some(c) = c {
                o.constraint = c;
            }
            if let Some(seed) = opt.lm_initial {
                let len = selected_count(geo, filter) + foci.len();
                o.initial = if seed == 0 { vec![0.0; len] } else { pr_bytes(seed, len).iter().map(|b| (*b as f32 / 256.0 - 0.5) * 2.0 * std::f32::consts::PI).collect() };
            }
            if let Some(k) = opt.lm_k_max {
                o.k_max = nz(k);
            }
            collect(LM::new(f, o, backend), geo, filter)
        }
        Solver::Greedy => {
            let mut o = GreedyOption::<D>::default();
            if let Some(c) = c {
                o.constraint = c;
            }
            if let Some(d) = opt.phase_div {
                o.phase_div = std::num::NonZeroU8::new(d.max(1)).unwrap();
            }
            collect(Greedy::<D>::new(f, o), geo, filter)
        }
    }
}

/// f64 field at `target` produced by `drives`: sum_i a_i exp(i phase_i) * propagate(tr_i, target)
pub fn field<D: Directivity>(geo: &Geometry, drives: &Drives, target: &Point3) -> (f64, f64) {
    let (mut re, mut im) = (0f64, 0f64);
    for dev in geo.devices() {
        let Some(dr) = &drives[dev.idx()] else { continue };
        for tr in dev.iter() {
            let d = dr[tr.idx()];
            let a = d.intensity.0 as f64 / 255.0;
            let ph = d.phase.0 as f64 / 256.0 * 2.0 * std::f64::consts::PI;
            let g = propagate::<D>(tr, dev.wavenumber(), dev.axial_direction(), target);
            let (gr, gi) = (g.re as f64, g.im as f64);
            re += a * (ph.cos() * gr - ph.sin() * gi);
            im += a * (ph.cos() * gi + ph.sin() * gr);
        }
    }
    (re, im)
}
pub fn pressure<D: Directivity>(geo: &Geometry, drives: &Drives, target: &Point3) -> f64 {
    let (re, im) = field::<D>(geo, drives, target);
    (re * re + im * im).sqrt()
}

pub fn focus_drives(geo: &Geometry, p: Point3) -> Drives {
    collect(Focus::new(p, FocusOption::default()), geo, None).unwrap()
}

// ------------------------------------------------------------------------------------ geometries

const GRID: [(f32, f32); 4] = [(0.0, 0.0), (192.0, 0.0), (0.0, 151.4), (192.0, 151.4)];

/// `mask[i]` = device i enabled.  The k-th ENABLED device sits on grid position k; disabled devices
/// are put in between (their pose must not matter).
pub fn make_geo(mask: &[bool]) -> Geometry {
    make_geo_posed(mask, 0)
}

/// tilts (degrees about the device's x and y axes) of the posed geometries
const TILTS: [(f32, f32); 4] = [(0.0, 0.0), (15.0, 0.0), (0.0, -15.0), (25.0, 10.0)];

/// `pose = 0`: all devices flat in the z = 0 plane with the default sound speed (what the thresholds were first
/// measured on).  `pose > 0` (coverage review C15 gap 2): the k-th ENABLED device is tilted by `TILTS[(k + pose) % 4]`
/// about its own origin and has the sound speed 340e3 + 2e3 (k + 1) mm/s, so that `axial_direction()` and
/// `wavenumber()` differ from device to device; disabled devices get yet another pose and sound speed.
pub fn make_geo_posed(mask: &[bool], pose: u8) -> Geometry {
    let mut k = 0;
    let mut devs: Vec<Device> = vec![];
    let mut speeds: Vec<f32> = vec![];
    for (i, &en) in mask.iter().enumerate() {
        let (pos, tilt, ss) = if en {
            let p = GRID[k];
            let t = if pose == 0 { (0.0, 0.0) } else { TILTS[(k + pose as usize) % 4] };
            let ss = if pose == 0 { 340e3 } else { 340e3 + 2e3 * (k + 1) as f32 };
            k += 1;
            (Point3::new(p.0, p.1, 0.0), t, ss)
        } else {
            (
                Point3::new(96.0 + 7.0 * i as f32, 75.0 - 5.0 * i as f32, 3.0 * i as f32),
                if pose == 0 { (0.0, 0.0) } else { (-20.0, 30.0) },
                if pose == 0 { 340e3 } else { 331e3 + 1e3 * i as f32 },
            )
        };
        devs.push(AUTD3 { pos, rot: EulerAngle::XYZ(tilt.0 * deg, tilt.1 * deg, 0.0 * deg) }.into());
        speeds.push(ss);
    }
    let mut g = Geometry::new(devs);
    for (i, &en) in mask.iter().enumerate() {
        g[i].enable = en;
        if pose != 0 {
            g[i].sound_speed = speeds[i];
        }
    }
    g
}

fn extent(n: usize) -> (f32, f32) {
    (if n >= 2 { 192.0 + 172.72 } else { 172.72 }, if n >= 3 { 151.4 + 132.08 } else { 132.08 })
}

/// `m` targets 100..300 mm above `ndev` devices, pairwise at least 20 mm apart
pub fn gen_foci(rng: &mut Rng, ndev: usize, m: usize) -> Vec<Point3> {
    let (w, h) = extent(ndev);
    let mut v: Vec<Point3> = vec![];
    let mut tries = 0;
    while v.len() < m {
        tries += 1;
        let p = Point3::new(
            rng.below(10001) as f32 / 10000.0 * w,
            rng.below(10001) as f32 / 10000.0 * h,
            100.0 + rng.below(20001) as f32 / 100.0,
        );
        let sep = if tries > 2000 { 20.0 } else if rng.chance(1, 4) { 20.0 } else { 30.0 };
        if v.iter().all(|q| (q - p).norm() >= sep) {
            v.push(p);
        }
    }
    v
}

fn all_true_filter(geo: &Geometry, with_disabled: bool) -> Filter {
    geo.iter()
        .filter(|d| d.enable || with_disabled)
        .map(|d| (d.idx(), BitVec::from_elem(d.num_transducers(), true)))
        .collect()
}

/// smallest circular arc (in phase steps) covering all values
fn arc(diffs: &[u8]) -> u32 {
    let mut present = [false; 256];
    for d in diffs {
        present[*d as usize] = true;
    }
    let vals: Vec<u32> = (0..256u32).filter(|i| present[*i as usize]).collect();
    if vals.len() <= 1 {
        return 0;
    }
    let mut maxgap = 0;
    for i in 0..vals.len() {
        let a = vals[i];
        let b = vals[(i + 1) % vals.len()];
        let gap = (b + 256 - a) % 256;
        maxgap = maxgap.max(gap);
    }
    256 - maxgap
}

// ------------------------------------------------------------------------------------ text

fn cons_tok(c: &EmissionConstraint) -> String {
    match c {
        EmissionConstraint::Normalize => "N".into(),
        EmissionConstraint::Multiply(v) => format!("M:{:08x}", v.to_bits()),
        EmissionConstraint::Uniform(v) => format!("U:{}", v.0),
        EmissionConstraint::Clamp(a, b) => format!("C:{}:{}", a.0, b.0),
    }
}
fn cons_kind(c: &EmissionConstraint) -> &'static str {
    match c {
        EmissionConstraint::Normalize => "Normalize",
        EmissionConstraint::Multiply(_) => "Multiply",
        EmissionConstraint::Uniform(_) => "Uniform",
        EmissionConstraint::Clamp(..) => "Clamp",
    }
}

// ------------------------------------------------------------------------------------ PART A

/// the op-line description of a filter over small geometries
#[derive(Clone)]
struct FSpec(Option<Vec<(usize, Vec<bool>)>>);
impl FSpec {
    fn tok(&self) -> String {
        match &self.0 {
            None => "-".into(),
            Some(es) => {
                let body: Vec<String> = es
                    .iter()
                    .map(|(i, b)| {
                        let bits: String = if b.is_empty() { ".".into() } else { b.iter().map(|x| if *x { '1' } else { '0' }).collect() };
                        format!("{i}={bits}")
                    })
                    .collect();
                format!("F{}", body.join(";"))
            }
        }
    }
    fn build(&self) -> Option<Filter> {
        self.0.as_ref().map(|es| es.iter().map(|(i, b)| (*i, BitVec::from_fn(b.len(), |k| b[k]))).collect())
    }
}

fn geo_tok(spec: &[(bool, usize)]) -> String {
    spec.iter().map(|(e, n)| format!("{}{}", if *e { 'e' } else { 'd' }, n)).collect::<Vec<_>>().join(",")
}

/// hand-made devices with `n` transducers each at pairwise distinct, generic positions
fn small_geo(spec: &[(bool, usize)]) -> Geometry {
    let devs: Vec<Device> = spec
        .iter()
        .enumerate()
        .map(|(d, (_, n))| {
            let trs = (0..*n)
                .map(|t| {
                    Transducer::new(Point3::new(
                        d as f32 * 61.3 + t as f32 * 7.9 + 0.37 * (t * t) as f32,
                        d as f32 * 17.1 + 1.3 * t as f32 - 0.11 * (d * t) as f32,
                        0.0,
                    ))
                })
                .collect();
            // a different axial direction per device (the T4010A1 directivity depends on it)
            Device::new(UnitQuaternion::from_axis_angle(&Vector3::x_axis(), 0.04 * d as f32), trs)
        })
        .collect();
    let mut g = Geometry::new(devs);
    for (d, (en, _)) in spec.iter().enumerate() {
        g[d].enable = *en;
        g[d].sound_speed = 340e3 + 1.5e3 * d as f32; // a different wavenumber per device
    }
    g
}

fn small_foci(m: usize) -> Vec<Point3> {
    (0..m).map(|j| Point3::new(13.7 + 29.3 * j as f32, 7.1 + 11.9 * j as f32 + 0.7 * (j * j) as f32, 150.0 + 3.3 * j as f32)).collect()
}

/// `cols`: the transducer each column of the real propagation matrix belongs to
fn cols_answer(spec: &[(bool, usize)], f: &FSpec, m: usize) -> String {
    let geo = small_geo(spec);
    let foci = small_foci(m);
    let filter = f.build();
    // value → (device, transducer), per focus, over ALL devices (a disabled device's column would show)
    let mut table: HashMap<(usize, u32, u32), (usize, usize)> = HashMap::new();
    for dev in geo.iter() {
        for tr in dev.iter() {
            for (j, p) in foci.iter().enumerate() {
                let v = propagate::<T4010A1>(tr, dev.wavenumber(), dev.axial_direction(), p);
                let old = table.insert((j, v.re.to_bits(), v.im.to_bits()), (dev.idx(), tr.idx()));
                assert!(old.is_none(), "harness: ambiguous propagation value, change the small geometry");
            }
        }
    }
    let backend = NalgebraBackend::<T4010A1>::new();
    let r = guarded(|| backend.generate_propagation_matrix(&geo, &foci, filter.as_ref()));
    match r {
        Err(_) => "panic".into(),
        Ok(Err(e)) => format!("err:{e}"),
        Ok(Ok(mat)) => {
            if mat.nrows() != m {
                return format!("rows={}", mat.nrows());
            }
            let mut toks = vec![format!("n={}", mat.ncols())];
            for c in 0..mat.ncols() {
                let mut lab: Option<(usize, usize)> = None;
                let mut ok = true;
                for j in 0..m {
                    let v = mat[(j, c)];
                    match table.get(&(j, v.re.to_bits(), v.im.to_bits())) {
                        Some(x) if lab.is_none() || lab == Some(*x) => lab = Some(*x),
                        _ => ok = false,
                    }
                }
                toks.push(match (ok, lab) {
                    (true, Some((d, t))) => format!("{d}.{t}"),
                    _ => "?".into(),
                });
            }
            toks.join(" ")
        }
    }
}

/// A complete backend that delegates to `NalgebraBackend`, except that the result of `gemv_c` (the
/// solution vector `q = B p` of `Naive`) is replaced by `q[i] = code(i)`:
/// magnitude `10 (i / 256 + 1) / 255`, argument `2 pi (i % 256) / 256`.
pub struct ProbeBackend<D: Directivity> {
    inner: NalgebraBackend<D>,
}
macro_rules! deleg {
    ($( fn $name:ident ( $($a:ident : $t:ty),* ) -> $r:ty; )*) => {
        $( fn $name(&self, $($a: $t),*) -> $r { self.inner.$name($($a),*) } )*
    };
}
impl<D: Directivity> LinAlgBackend<D> for ProbeBackend<D> {
    type MatrixXc = MatrixXc;
    type MatrixX = MatrixX;
    type VectorXc = VectorXc;
    type VectorX = VectorX;
    deleg! {
        fn generate_propagation_matrix(geometry: &Geometry, foci: &[Point3], filter: Option<&HashMap<usize, BitVec>>) -> Result<MatrixXc, HoloError>;
        fn alloc_v(size: usize) -> Result<VectorX, HoloError>;
        fn alloc_m(rows: usize, cols: usize) -> Result<MatrixX, HoloError>;
        fn alloc_cv(size: usize) -> Result<VectorXc, HoloError>;
        fn alloc_cm(rows: usize, cols: usize) -> Result<MatrixXc, HoloError>;
        fn alloc_zeros_v(size: usize) -> Result<VectorX, HoloError>;
        fn alloc_zeros_cv(size: usize) -> Result<VectorXc, HoloError>;
        fn alloc_zeros_cm(rows: usize, cols: usize) -> Result<MatrixXc, HoloError>;
        fn to_host_v(v: VectorX) -> Result<VectorX, HoloError>;
        fn to_host_m(v: MatrixX) -> Result<MatrixX, HoloError>;
        fn to_host_cv(v: VectorXc) -> Result<VectorXc, HoloError>;
        fn to_host_cm(v: MatrixXc) -> Result<MatrixXc, HoloError>;
        fn cols_c(m: &MatrixXc) -> Result<usize, HoloError>;
        fn from_slice_v(v: &[f32]) -> Result<VectorX, HoloError>;
        fn from_slice_m(rows: usize, cols: usize, v: &[f32]) -> Result<MatrixX, HoloError>;
        fn from_slice_cv(v: &[f32]) -> Result<VectorXc, HoloError>;
        fn from_slice2_cv(r: &[f32], i: &[f32]) -> Result<VectorXc, HoloError>;
        fn from_slice2_cm(rows: usize, cols: usize, r: &[f32], i: &[f32]) -> Result<MatrixXc, HoloError>;
        fn copy_from_slice_v(v: &[f32], dst: &mut VectorX) -> Result<(), HoloError>;
        fn copy_to_v(src: &VectorX, dst: &mut VectorX) -> Result<(), HoloError>;
        fn copy_to_m(src: &MatrixX, dst: &mut MatrixX) -> Result<(), HoloError>;
        fn clone_v(v: &VectorX) -> Result<VectorX, HoloError>;
        fn clone_m(v: &MatrixX) -> Result<MatrixX, HoloError>;
        fn clone_cv(v: &VectorXc) -> Result<VectorXc, HoloError>;
        fn clone_cm(v: &MatrixXc) -> Result<MatrixXc, HoloError>;
        fn make_complex2_v(real: &VectorX, imag: &VectorX, v: &mut VectorXc) -> Result<(), HoloError>;
        fn create_diagonal(v: &VectorX, a: &mut MatrixX) -> Result<(), HoloError>;
        fn create_diagonal_c(v: &VectorXc, a: &mut MatrixXc) -> Result<(), HoloError>;
        fn get_diagonal(a: &MatrixX, v: &mut VectorX) -> Result<(), HoloError>;
        fn norm_squared_cv(a: &VectorXc, b: &mut VectorX) -> Result<(), HoloError>;
        fn real_cm(a: &MatrixXc, b: &mut MatrixX) -> Result<(), HoloError>;
        fn imag_cm(a: &MatrixXc, b: &mut MatrixX) -> Result<(), HoloError>;
        fn scale_assign_cv(a: Complex, b: &mut VectorXc) -> Result<(), HoloError>;
        fn conj_assign_v(b: &mut VectorXc) -> Result<(), HoloError>;
        fn exp_assign_cv(v: &mut VectorXc) -> Result<(), HoloError>;
        fn concat_col_cm(a: &MatrixXc, b: &MatrixXc, c: &mut MatrixXc) -> Result<(), HoloError>;
        fn max_v(m: &VectorX) -> Result<f32, HoloError>;
        fn hadamard_product_cm(x: &MatrixXc, y: &MatrixXc, z: &mut MatrixXc) -> Result<(), HoloError>;
        fn dot(x: &VectorX, y: &VectorX) -> Result<f32, HoloError>;
        fn dot_c(x: &VectorXc, y: &VectorXc) -> Result<Complex, HoloError>;
        fn add_v(alpha: f32, a: &VectorX, b: &mut VectorX) -> Result<(), HoloError>;
        fn add_m(alpha: f32, a: &MatrixX, b: &mut MatrixX) -> Result<(), HoloError>;
        fn gevv_c(trans_a: Trans, trans_b: Trans, alpha: Complex, a: &VectorXc, x: &VectorXc, beta: Complex, y: &mut MatrixXc) -> Result<(), HoloError>;
        fn gemm_c(trans_a: Trans, trans_b: Trans, alpha: Complex, a: &MatrixXc, b: &MatrixXc, beta: Complex, y: &mut MatrixXc) -> Result<(), HoloError>;
        fn solve_inplace(a: &MatrixX, x: &mut VectorX) -> Result<(), HoloError>;
        fn reduce_col(a: &MatrixX, b: &mut VectorX) -> Result<(), HoloError>;
        fn scaled_to_cv(a: &VectorXc, b: &VectorXc, c: &mut VectorXc) -> Result<(), HoloError>;
        fn scaled_to_assign_cv(a: &VectorXc, b: &mut VectorXc) -> Result<(), HoloError>;
        fn gen_back_prop(m: usize, n: usize, transfer: &MatrixXc) -> Result<MatrixXc, HoloError>;
    }
    fn gemv_c(&self, trans: Trans, alpha: Complex, a: &MatrixXc, x: &VectorXc, beta: Complex, y: &mut VectorXc) -> Result<(), HoloError> {
        self.inner.gemv_c(trans, alpha, a, x, beta, y)?;
        for i in 0..y.len() {
            let r = 10.0 * (i / 256 + 1) as f32 / 255.0;
            let th = 2.0 * std::f32::consts::PI * (i % 256) as f32 / 256.0;
            y[i] = Complex::from_polar(r, th);
        }
        Ok(())
    }
}

fn decode(d: Drive) -> String {
    if d == Drive::NULL {
        return "-".into();
    }
    let i = d.intensity.0 as usize;
    if i % 10 != 0 || i == 0 {
        return "?".into();
    }
    ((i / 10 - 1) * 256 + d.phase.0 as usize).to_string()
}

/// `map`: which entry of the solution vector each transducer's drive was computed from
fn map_answer(geo: &Geometry, filter: Option<&Filter>, m: usize) -> String {
    let foci: Vec<(Point3, Amplitude)> = small_foci(m).into_iter().map(|p| (p, 1.0 * Pa)).collect();
    let g = Naive::new(
        foci,
        NaiveOption { constraint: EmissionConstraint::Clamp(EmitIntensity::MIN, EmitIntensity::MAX), ..Default::default() },
        Arc::new(ProbeBackend { inner: NalgebraBackend::<Sphere>::new() }),
    );
    match collect(g, geo, filter) {
        Err(e) => if e.starts_with("panic") { "panic".into() } else { e },
        Ok(dr) => {
            let toks: Vec<String> = geo
                .devices()
                .map(|dev| format!("{}:{}", dev.idx(), dr[dev.idx()].as_ref().unwrap().iter().map(|d| decode(*d)).collect::<Vec<_>>().join(",")))
                .collect();
            if toks.is_empty() { "none".into() } else { toks.join(" ") }
        }
    }
}

fn greedy_answer(geo: &Geometry, filter: Option<&Filter>, c: EmissionConstraint) -> String {
    let foci = vec![(small_foci(1)[0], 1.0f32)];
    match solve::<Sphere>(Solver::Greedy, &foci, Some(c), geo, filter, &Opt::default()) {
        Err(e) => if e.starts_with("panic") { "panic".into() } else { e },
        Ok(dr) => {
            let toks: Vec<String> = geo
                .devices()
                .map(|dev| format!("{}:{}", dev.idx(), dr[dev.idx()].as_ref().unwrap().iter().map(|d| d.intensity.0.to_string()).collect::<Vec<_>>().join(",")))
                .collect();
            if toks.is_empty() { "none".into() } else { toks.join(" ") }
        }
    }
}

fn rand_filter(rng: &mut Rng, spec: &[(bool, usize)], allow_short: bool, allow_long: bool) -> (FSpec, &'static str) {
    let n = spec.len();
    match rng.below(10) {
        0 | 1 => (FSpec(None), "none"),
        2 | 3 => {
            // all-true, for every device or for the enabled ones only
            let every = rng.chance(1, 2);
            (FSpec(Some(spec.iter().enumerate().filter(|(_, (e, _))| *e || every).map(|(i, (_, k))| (i, vec![true; *k])).collect())), "all-true")
        }
        4 => (FSpec(Some(vec![])), "empty-map"),
        _ => {
            let mut es = vec![];
            let mut kind = "random";
            for i in 0..n {
                if rng.chance(1, 5) {
                    continue; // no entry for this device
                }
                let mut len = spec[i].1;
                if allow_short && rng.chance(1, 25) && len > 0 {
                    len -= 1 + rng.below(len as u64) as usize;
                    kind = "short-bitvec";
                } else if allow_long && rng.chance(1, 25) {
                    len += 1 + rng.below(3) as usize;
                    kind = "long-bitvec";
                }
                let dens = rng.below(4);
                es.push((i, (0..len).map(|_| match dens { 0 => false, 1 => true, _ => rng.chance(1, 2) }).collect()));
            }
            if rng.chance(1, 6) {
                es.push((n + rng.below(3) as usize, vec![true; 2])); // key of a device that does not exist
            }
            // a HashMap has no order: shuffle the entries
            for i in (1..es.len()).rev() {
                es.swap(i, rng.below(i as u64 + 1) as usize);
            }
            (FSpec(Some(es)), kind)
        }
    }
}

fn rand_spec(rng: &mut Rng) -> Vec<(bool, usize)> {
    let n = rng.range(1, 5) as usize;
    (0..n)
        .map(|_| (rng.chance(3, 4), match rng.below(6) { 0 => 1, 1 => 2, _ => rng.range(1, 7) as usize }))
        .collect()
}

fn f32_pool() -> Vec<u32> {
    let mut v: Vec<u32> = vec![
        0, 0x8000_0000, 1, 0x007f_ffff, 0x0080_0000, 0x3f80_0000, 0x3f00_0000, 0x4000_0000, 0x3fc0_0000, 0xbf80_0000,
        0x7f7f_ffff, 0x7f80_0000, 0xff80_0000, 0x7fc0_0000, 0xffc0_0000, 0x437f_0000, 0x4380_0000, 0x3b80_8081, /* 1/255 */
        0x3e80_0000, 0x3dcc_cccd, 0x4120_0000, 0x42c8_0000, 0x3a83_126f, 0x3400_0000,
    ];
    // k/255, (k+0.5)/255 and their neighbours: the rounding boundaries of Clamp / Normalize
    for k in [0u32, 1, 2, 63, 64, 127, 128, 191, 192, 254, 255, 256] {
        for h in [0.0f32, 0.5] {
            let x = (k as f32 + h) / 255.0;
            for d in [-1i32, 0, 1] {
                v.push((x.to_bits() as i32 + d) as u32);
            }
            let y = k as f32 + h;
            for d in [-1i32, 0, 1] {
                v.push((y.to_bits() as i32 + d).max(0) as u32);
            }
        }
    }
    v
}

fn rand_constraint(rng: &mut Rng, allow_panic: bool) -> EmissionConstraint {
    match rng.below(4) {
        0 => EmissionConstraint::Normalize,
        1 => EmissionConstraint::Multiply(match rng.below(8) {
            0 => 0.0,
            1 => 1.0,
            2 => 0.5,
            3 => 2.0,
            4 if allow_panic => -1.0,
            5 if allow_panic => f32::from_bits(*rng.pick(&[0x7fc0_0000u32, 0x7f80_0000, 0xff80_0000, 0x8000_0000])),
            _ => rng.below(1001) as f32 / 1000.0,
        }),
        2 => {
            let r = rng.below(256) as u8;
            EmissionConstraint::Uniform(EmitIntensity(*rng.pick(&[0u8, 1, 127, 128, 254, 255, r])))
        }
        _ => {
            let (r1, r2) = (rng.below(256) as u8, rng.below(256) as u8);
            let a = *rng.pick(&[0u8, 1, 10, 64, 127, 128, 200, 254, 255, r1]);
            let b = *rng.pick(&[0u8, 1, 10, 64, 127, 128, 200, 254, 255, r2]);
            if a <= b || (allow_panic && rng.chance(1, 3)) { EmissionConstraint::Clamp(EmitIntensity(a), EmitIntensity(b)) } else { EmissionConstraint::Clamp(EmitIntensity(b), EmitIntensity(a)) }
        }
    }
}

struct Ctx {
    out: Out,
    marg: BTreeMap<String, (f64, f64)>,
    /// per solver: (probes, probes in which `repeat = 1` gave other drives than the default `repeat`)
    repeat_probe: BTreeMap<String, (u32, u32)>,
}
impl Ctx {
    fn margin(&mut self, key: &str, v: f64) {
        let e = self.marg.entry(key.to_string()).or_insert((f64::INFINITY, f64::NEG_INFINITY));
        e.0 = e.0.min(v);
        e.1 = e.1.max(v);
    }
}

/// one `conv` line: the real `convert` on each (value, max) pair + the oracle on it
fn conv_line(ctx: &mut Ctx, c: EmissionConstraint, pairs: &[(u32, u32)], tag: &str) {
    let mut ans = vec![];
    for &(v, m) in pairs {
        let r = guarded(|| c.convert(f32::from_bits(v), f32::from_bits(m)).0);
        let val = f32::from_bits(v);
        match (&r, &c) {
            (Ok(b), EmissionConstraint::Uniform(u)) if *b != u.0 => {
                ctx.out.violation(format!("conv:Uniform:{}", u.0), format!("Uniform({}) returned {b}", u.0), vec![format!("conv {} {v:08x}:{m:08x}", cons_tok(&c))]);
            }
            (Ok(b), EmissionConstraint::Clamp(lo, hi)) if lo.0 <= hi.0 && !(lo.0 <= *b && *b <= hi.0) => {
                ctx.out.violation(
                    if val.is_nan() { "conv:Clamp:nan".to_string() } else { format!("conv:Clamp:{}:{}:{v:08x}", lo.0, hi.0) },
                    format!("EmissionConstraint::Clamp({},{}).convert({val:e}, {:e}) returned {b}", lo.0, hi.0, f32::from_bits(m)),
                    vec![format!("conv {} {v:08x}:{m:08x}", cons_tok(&c))],
                );
            }
            (Err(_), EmissionConstraint::Clamp(lo, hi)) if lo.0 > hi.0 => ctx.out.count("observation O2: Clamp(min>max) panics in f32::clamp"),
            (Err(e), _) => {
                // Multiply / Normalize / Uniform / Clamp(lo<=hi) must never panic
                ctx.out.violation(format!("conv:panic:{}", cons_kind(&c)), format!("convert panicked: {e}"), vec![format!("conv {} {v:08x}:{m:08x}", cons_tok(&c))]);
            }
            _ => {}
        }
        ans.push(match r {
            Ok(b) => b.to_string(),
            Err(_) => "panic".into(),
        });
    }
    let op = format!("conv {} {}", cons_tok(&c), pairs.iter().map(|(v, m)| format!("{v:08x}:{m:08x}")).collect::<Vec<_>>().join(" "));
    ctx.out.line(&op, &ans.join(" "));
    ctx.out.count(&format!("conv lines {}", cons_kind(&c)));
    ctx.out.count_n("conv evaluations", pairs.len() as u64);
    for ((v, m), a) in pairs.iter().zip(&ans) {
        ctx.out.case(Some(fnv64(format!("conv{}:{v:08x}:{m:08x}:{a}:{tag}", cons_tok(&c)).as_bytes())));
    }
}

fn part_a(ctx: &mut Ctx, rng: &mut Rng, thorough: bool) {
    // ---- conv: boundary pool x boundary pool, per constraint family
    let pool = f32_pool();
    let cons: Vec<EmissionConstraint> = vec![
        EmissionConstraint::Normalize,
        EmissionConstraint::Multiply(0.5),
        EmissionConstraint::Multiply(1.0),
        EmissionConstraint::Multiply(2.0),
        EmissionConstraint::Multiply(0.0),
        EmissionConstraint::Multiply(-1.0),
        EmissionConstraint::Multiply(f32::NAN),
        EmissionConstraint::Multiply(f32::INFINITY),
        EmissionConstraint::Uniform(EmitIntensity(0)),
        EmissionConstraint::Uniform(EmitIntensity(200)),
        EmissionConstraint::Clamp(EmitIntensity(0), EmitIntensity(255)),
        EmissionConstraint::Clamp(EmitIntensity(64), EmitIntensity(192)),
        EmissionConstraint::Clamp(EmitIntensity(10), EmitIntensity(10)),
        EmissionConstraint::Clamp(EmitIntensity(255), EmitIntensity(255)),
        EmissionConstraint::Clamp(EmitIntensity(200), EmitIntensity(100)),
        EmissionConstraint::Clamp(EmitIntensity(1), EmitIntensity(0)),
    ];
    let maxes: Vec<u32> = vec![0x3f80_0000, 0x4000_0000, 0, 0x8000_0000, 0x7f80_0000, 0x7fc0_0000, 1, 0x7f7f_ffff, 0x3b80_8081, 0xbf80_0000, 0x3eaa_aaab];
    for c in &cons {
        for &m in &maxes {
            let pairs: Vec<(u32, u32)> = pool.iter().map(|&v| (v, m)).collect();
            conv_line(ctx, *c, &pairs, "pool");
        }
        // value == max (the largest coefficient): Normalize must give 255
        let pairs: Vec<(u32, u32)> = pool.iter().map(|&v| (v, v)).collect();
        conv_line(ctx, *c, &pairs, "diag");
    }
    // ---- conv: random
    let n_rand = if thorough { 6000 } else { 500 };
    for _ in 0..n_rand {
        let c = rand_constraint(rng, true);
        let pairs: Vec<(u32, u32)> = (0..16)
            .map(|_| match rng.below(4) {
                0 => (rng.next() as u32, rng.next() as u32),
                1 => {
                    // 0 <= value <= max, typical magnitudes
                    let m = (rng.below(100000) as f32 + 1.0) / 1000.0 * *rng.pick(&[1e-6f32, 1e-3, 1.0, 1e3]);
                    let v = m * (rng.below(100001) as f32 / 100000.0);
                    (v.to_bits(), m.to_bits())
                }
                2 => {
                    // value * 255 near a rounding boundary (Clamp) / value / max * 255 near one (Normalize)
                    let k = rng.below(260) as f32 + 0.5;
                    let x = k / 255.0;
                    ((x.to_bits() as i64 + rng.range(0, 4) as i64 - 2) as u32, *rng.pick(&[0x3f80_0000u32, 0x4000_0000, 0x3f00_0000]))
                }
                _ => (*rng.pick(&pool), *rng.pick(&pool)),
            })
            .collect();
        conv_line(ctx, c, &pairs, "rand");
    }

    // ---- conv: Multiply(v) with value / max * 255 * v within a few ulps of a rounding boundary (the order
    // of the two multiplications matters there)
    for _ in 0..(if thorough { 600 } else { 120 }) {
        let v = match rng.below(4) {
            0 => 0.5f32,
            1 => rng.below(1000) as f32 / 1000.0 + 0.001,
            2 => rng.below(2000) as f32 / 1000.0 + 0.001,
            _ => f32::from_bits(0x3e00_0000 + rng.below(0x0200_0000) as u32),
        };
        let pairs: Vec<(u32, u32)> = (0..16)
            .map(|_| {
                let m = *rng.pick(&[1.0f32, 2.0, 0.5, 3.0, 0.1]);
                let k = rng.below(256) as f64 + 0.5;
                let x = (k / (255.0 * v as f64) * m as f64) as f32;
                ((x.to_bits() as i64 + rng.range(0, 6) as i64 - 3) as u32, m.to_bits())
            })
            .collect();
        conv_line(ctx, EmissionConstraint::Multiply(v), &pairs, "mul-boundary");
    }

    // ---- cols / map / greedy over small geometries
    let n_geo = if thorough { 6000 } else { 700 };
    let mut specs: Vec<(Vec<(bool, usize)>, FSpec, &'static str)> = vec![];
    // corpus: shapes that separate the usual index mistakes
    let base: Vec<Vec<(bool, usize)>> = vec![
        vec![(true, 3)],
        vec![(true, 3), (true, 2)],
        vec![(false, 2), (true, 3)],
        vec![(true, 3), (false, 2), (true, 4)],
        vec![(false, 1), (false, 2), (true, 2), (true, 3)],
        vec![(true, 1), (true, 2), (true, 3), (true, 4)],
        vec![(false, 3), (false, 2)],
        vec![(true, 2), (false, 5), (false, 1), (true, 3), (true, 1)],
    ];
    for s in &base {
        specs.push((s.clone(), FSpec(None), "none"));
        specs.push((s.clone(), FSpec(Some(s.iter().enumerate().map(|(i, (_, k))| (i, vec![true; *k])).collect())), "all-true"));
        specs.push((s.clone(), FSpec(Some(s.iter().enumerate().filter(|(_, (e, _))| *e).map(|(i, (_, k))| (i, vec![true; *k])).collect())), "all-true"));
        specs.push((s.clone(), FSpec(Some(s.iter().enumerate().map(|(i, (_, k))| (i, (0..*k).map(|t| (t + i) % 2 == 0).collect())).collect())), "random"));
        specs.push((s.clone(), FSpec(Some(s.iter().enumerate().skip(1).map(|(i, (_, k))| (i, (0..*k).map(|t| t % 3 != 1).collect())).collect())), "random"));
        specs.push((s.clone(), FSpec(Some(vec![])), "empty-map"));
    }
    for _ in 0..n_geo {
        let s = rand_spec(rng);
        let (f, kind) = rand_filter(rng, &s, true, false);
        specs.push((s, f, kind));
    }
    for (k, (spec, f, fkind)) in specs.iter().enumerate() {
        let nen = spec.iter().filter(|(e, _)| *e).count();
        // foci counts on both sides of `num_devices < foci.len()`
        let ms: Vec<usize> = if k < base.len() * 6 { vec![1, nen.max(1), nen + 1, nen + 3] } else { vec![if rng.chance(1, 2) { rng.range(1, nen.max(1) as u64) as usize } else { nen + rng.range(1, 4) as usize }] };
        let geo = small_geo(spec);
        let filter = f.build();
        let is_long = false;
        let _ = is_long;
        for &m in &ms {
            let path = format!("{}{}", if f.0.is_some() { "filter" } else { "nofilter" }, if nen < m { "/rows (devices<foci)" } else { "/ptr (devices>=foci)" });
            let op = format!("cols {m} {} {}", geo_tok(spec), f.tok());
            let ans = cols_answer(spec, f, m);
            ctx.out.count(&format!("cols path {path}"));
            if ans == "panic" {
                ctx.out.count("cols panic (short bit vector)");
            }
            ctx.out.line(&op, &ans);
            ctx.out.case(if nen > 0 { Some(fnv64(op.as_bytes())) } else { None });
        }
        // map: the index each transducer reads
        let m = ms[0];
        let op = format!("map {} {}", geo_tok(spec), f.tok());
        let ans = map_answer(&geo, filter.as_ref(), m);
        ctx.out.line(&op, &ans);
        ctx.out.count(&format!("map filter kind {fkind}"));
        ctx.out.count(&format!("map devices {} enabled {nen}", spec.len()));
        ctx.out.case(if nen > 0 { Some(fnv64(op.as_bytes())) } else { None });
        // ORACLE (index level, on the implementation alone): the column a transducer reads is its own
        let cols = cols_answer(spec, f, m);
        if ans != "panic" && cols != "panic" {
            let col_toks: Vec<&str> = cols.split(' ').skip(1).collect();
            let mut seen = vec![false; col_toks.len()];
            let mut bad: Option<String> = None;
            for tok in ans.split(' ').filter(|t| *t != "none") {
                let (d, xs) = tok.split_once(':').unwrap();
                for (t, x) in xs.split(',').filter(|x| !x.is_empty()).enumerate() {
                    if x == "-" {
                        if col_toks.contains(&format!("{d}.{t}").as_str()) {
                            bad = Some(format!("transducer {d}.{t} has a matrix column but its drive is NULL"));
                        }
                        continue;
                    }
                    match x.parse::<usize>() {
                        Ok(i) if i < col_toks.len() && col_toks[i] == format!("{d}.{t}") => seen[i] = true,
                        _ => bad = Some(format!("transducer {d}.{t} reads solution entry {x}, whose matrix column is {}", x.parse::<usize>().ok().and_then(|i| col_toks.get(i)).copied().unwrap_or("out of range"))),
                    }
                }
            }
            if bad.is_none() && seen.iter().any(|s| !*s) {
                bad = Some("a matrix column is read by no transducer".into());
            }
            if bad.is_none() && col_toks.contains(&"?") {
                bad = Some("a matrix column is not the propagation of one transducer to the foci in order".into());
            }
            if let Some(w) = bad {
                ctx.out.violation(
                    format!("index:{}:{}:{}", geo_tok(spec), f.tok(), m),
                    format!("generate_propagation_matrix and generate_result disagree: {w}"),
                    vec![format!("cols {m} {} {}", geo_tok(spec), f.tok()), op.clone()],
                );
            }
        }
        // greedy
        if k % 3 == 0 {
            let c = rand_constraint(rng, true);
            let op = format!("greedy {} {} {}", cons_tok(&c), geo_tok(spec), f.tok());
            let ans = greedy_answer(&geo, filter.as_ref(), c);
            ctx.out.line(&op, &ans);
            ctx.out.count("greedy lines");
            ctx.out.case(if nen > 0 { Some(fnv64(op.as_bytes())) } else { None });
        }
    }
    // long bit vectors: defined behaviour only on the rows path (`from_iterator` panics); the ptr path
    // would leave uninitialised columns, which is outside every sensible quantifier and not exercised
    for _ in 0..(if thorough { 200 } else { 30 }) {
        let s = rand_spec(rng);
        let (f, kind) = rand_filter(rng, &s, false, true);
        if kind != "long-bitvec" {
            continue;
        }
        let nen = s.iter().filter(|(e, _)| *e).count();
        let m = nen + 1;
        let op = format!("cols {m} {} {}", geo_tok(&s), f.tok());
        let ans = cols_answer(&s, &f, m);
        ctx.out.line(&op, &ans);
        ctx.out.count("cols long bit vector (rows path)");
        ctx.out.case(Some(fnv64(op.as_bytes())));
    }
    // full-size devices: index codes above 255 (AUTD3 has 249 transducers)
    for mask in [vec![true, true], vec![true, false, true, true], vec![false, true, true, true, true]] {
        let spec: Vec<(bool, usize)> = mask.iter().map(|e| (*e, 249)).collect();
        let geo = make_geo(&mask);
        for f in [FSpec(None), FSpec(Some(spec.iter().enumerate().map(|(i, _)| (i, (0..249).map(|t| (t * 7 + i) % 5 != 0).collect())).collect()))] {
            let filter = f.build();
            let op = format!("map {} {}", geo_tok(&spec), f.tok());
            let ans = map_answer(&geo, filter.as_ref(), 2);
            ctx.out.line(&op, &ans);
            ctx.out.count("map full-size AUTD3");
            ctx.out.case(Some(fnv64(op.as_bytes())));
        }
    }
}

// ------------------------------------------------------------------------------------ PART B

#[derive(Clone, Debug)]
enum Kind {
    /// one target, amplitude = frac * (full-power Focus pressure there), frac <= 0.7
    Single(f64),
    /// one target, amplitude = mult * full-power pressure, mult >= 1.2
    Unreach(f64),
    /// several targets, equal amplitude = fr * min(full-power pressure) / count
    Multi(f64),
    /// arbitrary amplitudes / constraint: only the exact clauses
    Free,
}

// thresholds of the numerical support checks (fixed after measuring the unchanged code, see report)
const TH_SINGLE_REL: f64 = 0.08; // |P/a - 1|, requests between 10 % and 70 % of the full-power focus
/// KNOWN FINDING (not repairable by a small patch): the back-projection of Naive/GS/GSPAT asks the near
/// transducers for more than full scale already at 50-70 % of the full-power focus when the propagation
/// magnitudes differ much between transducers (T4010A1 directivity on several devices, target near the
/// array edge); `Clamp(0,255)` cuts them and the target gets up to ~19 % less (Sphere: up to ~5 %).
const KNOWN_CLIP_KEY: &str = "holo:single-pressure:linear-solver-clips";
const KNOWN_CLIP_ENVELOPE: f64 = -0.25;
const TH_UNREACH: f64 = 0.40; // P / P_full
const TH_ARC: u32 = 2; // phase steps
const TH_MULTI_MIN: f64 = 0.25; // min_k P_k / a
const TH_MULTI_BAL: f64 = 5.0; // max_k P_k / min_k P_k

struct Case {
    dir: char,
    solver: Solver,
    constraint: Option<EmissionConstraint>,
    ndev: usize,
    foci: Vec<(Point3, f32)>,
    kind: Kind,
    pfull: Vec<f64>,
    /// 0 = flat devices, default sound speed; otherwise see `make_geo_posed`
    pose: u8,
    opt: Opt,
}

fn case_text(c: &Case) -> String {
    let mut t = format!(
        "holo dir={} solver={:?} constraint={} devices={} foci=[{}]",
        if c.dir == 'S' { "Sphere" } else { "T4010A1" },
        c.solver,
        c.constraint.map(|x| cons_tok(&x)).unwrap_or("default".into()),
        c.ndev,
        c.foci.iter().map(|(p, a)| format!("({},{},{};{}Pa)", p.x, p.y, p.z, a)).collect::<Vec<_>>().join(" ")
    );
    if c.pose != 0 {
        t += &format!(" pose={} (k-th device tilted by TILTS[(k+pose)%4] deg about x,y; sound speed 340e3+2e3(k+1))", c.pose);
    }
    if !c.opt.is_default() {
        t += &format!(" option={}", c.opt.tok());
    }
    t
}

/// a filter that selects only part of the transducers: one enabled device may be missing from the map or have an
/// all-false entry (when another one has selected transducers), disabled devices may have entries (ignored)
fn partial_filter(rng: &mut Rng, geo: &Geometry) -> Filter {
    let en: Vec<usize> = geo.devices().map(|d| d.idx()).collect();
    let absent = if en.len() >= 2 && rng.chance(1, 2) { Some(*rng.pick(&en)) } else { None };
    let empty = if en.len() >= 2 && rng.chance(1, 4) { Some(*rng.pick(&en)) } else { None };
    let keep = *rng.pick(&en.iter().copied().filter(|i| Some(*i) != absent).collect::<Vec<_>>());
    let mut f = Filter::new();
    for dev in geo.iter() {
        let n = dev.num_transducers();
        if !dev.enable {
            if rng.chance(1, 2) {
                f.insert(dev.idx(), BitVec::from_fn(n, |t| t % 3 != 0));
            }
            continue;
        }
        if Some(dev.idx()) == absent {
            continue;
        }
        if Some(dev.idx()) == empty && dev.idx() != keep {
            f.insert(dev.idx(), BitVec::from_elem(n, false));
            continue;
        }
        let style = rng.below(4);
        let salt = rng.next();
        let bytes = pr_bytes(salt | 1, n);
        let mut bits: Vec<bool> = (0..n)
            .map(|t| match style {
                0 => (t + salt as usize) % 2 == 0,
                1 => bytes[t] < 128,
                2 => bytes[t] < 192,
                _ => t < n / 2 + (salt % 7) as usize,
            })
            .collect();
        bits[(salt as usize >> 8) % n] = true;
        f.insert(dev.idx(), BitVec::from_fn(n, |t| bits[t]));
    }
    f
}

/// the geometry that consists of the selected transducers only (same positions, same device rotation and sound
/// speed; devices without a selected transducer are left out), and for each of its devices the (device, transducer
/// indices) in `geo` it was made from
fn rebuild_selected(geo: &Geometry, filter: &Filter) -> (Geometry, Vec<(usize, Vec<usize>)>) {
    let mut devs = vec![];
    let mut origin = vec![];
    let mut speeds = vec![];
    for dev in geo.devices() {
        let Some(b) = filter.get(&dev.idx()) else { continue };
        let sel: Vec<usize> = dev.iter().filter(|tr| b[tr.idx()]).map(|tr| tr.idx()).collect();
        if sel.is_empty() {
            continue;
        }
        devs.push(Device::new(*dev.rotation(), sel.iter().map(|t| Transducer::new(*dev[*t].position())).collect()));
        speeds.push(dev.sound_speed);
        origin.push((dev.idx(), sel));
    }
    let mut g = Geometry::new(devs);
    for (k, ss) in speeds.iter().enumerate() {
        g[k].sound_speed = *ss;
    }
    (g, origin)
}

/// the phase bytes Greedy can return with `div` candidates: `Phase::from(exp(i 2 pi k / div))`, computed as the code does
fn greedy_phase_set(div: u8) -> [bool; 256] {
    let mut set = [false; 256];
    for i in 0..div {
        let c = Complex::new(0., 2.0 * std::f32::consts::PI * i as f32 / div as f32).exp();
        set[Phase::from(c).0 as usize] = true;
    }
    set
}

/// is a shortfall of a single reachable target an instance of the recorded finding (see `KNOWN_CLIP_KEY`)?  The
/// documented conditions (coverage review C15 gap 4: the exemption must not absorb anything else): a linear solver
/// under its default Clamp(0,255), some transducer driven at full scale, T4010A1 directivity or several devices, a
/// request of at least half of the full-power focus, a shortfall between 2 % and the measured envelope
fn is_known_clip(s: Solver, default_constraint: bool, dir: char, ndev: usize, frac: f64, clipped: bool, rel: f64) -> bool {
    s.linear() && default_constraint && clipped && rel < -0.02 && rel >= KNOWN_CLIP_ENVELOPE && (dir == 'T' || ndev >= 2) && frac >= 0.5
}

fn check_constraint(c: &EmissionConstraint, s: Solver, dr: &Drives, geo: &Geometry, filter: Option<&Filter>) -> Option<String> {
    let mut maxi = 0u8;
    let mut any = false;
    for dev in geo.devices() {
        let d = dr[dev.idx()].as_ref().unwrap();
        for tr in dev.iter() {
            let inside = filter.map(|f| f.get(&dev.idx()).map(|b| b[tr.idx()]).unwrap_or(false)).unwrap_or(true);
            let x = d[tr.idx()];
            if !inside {
                if x != Drive::NULL {
                    return Some(format!("transducer {}.{} is outside the filter but got {:?}", dev.idx(), tr.idx(), x));
                }
                continue;
            }
            any = true;
            maxi = maxi.max(x.intensity.0);
            match c {
                EmissionConstraint::Uniform(v) if x.intensity != *v => return Some(format!("Uniform({}) but transducer {}.{} has intensity {}", v.0, dev.idx(), tr.idx(), x.intensity.0)),
                EmissionConstraint::Clamp(lo, hi) if !(lo.0 <= x.intensity.0 && x.intensity.0 <= hi.0) => {
                    return Some(format!("Clamp({},{}) but transducer {}.{} has intensity {}", lo.0, hi.0, dev.idx(), tr.idx(), x.intensity.0));
                }
                _ => {}
            }
        }
    }
    if any {
        match c {
            // the largest coefficient maps to full scale (times v)
            EmissionConstraint::Normalize if maxi != 255 => return Some(format!("Normalize but the largest intensity is {maxi}")),
            EmissionConstraint::Multiply(v) if (0.0..=1.0).contains(v) => {
                // the largest coefficient is `sqrt(max |q|^2)` while the value is `|q|` (hypot): their quotient
                // may be one ulp below 1, so a product exactly on a rounding boundary may round down
                let want = (255.0 * v).round() as u8;
                let _ = s;
                if maxi > want || (maxi as u16) + 1 < want as u16 {
                    return Some(format!("Multiply({v}) but the largest intensity is {maxi} (expected {want})"));
                }
            }
            _ => {}
        }
    }
    None
}

fn same_drives(a: &Drives, a_geo: &Geometry, b: &Drives, b_geo: &Geometry) -> Option<String> {
    let xs: Vec<&Vec<Drive>> = a_geo.devices().map(|d| a[d.idx()].as_ref().unwrap()).collect();
    let ys: Vec<&Vec<Drive>> = b_geo.devices().map(|d| b[d.idx()].as_ref().unwrap()).collect();
    if xs.len() != ys.len() {
        return Some("different number of enabled devices".into());
    }
    for (k, (x, y)) in xs.iter().zip(&ys).enumerate() {
        for t in 0..x.len() {
            if x[t] != y[t] {
                return Some(format!("enabled device #{k} transducer {t}: {:?} vs {:?}", x[t], y[t]));
            }
        }
    }
    None
}

fn run_case<D: Directivity + 'static>(ctx: &mut Ctx, rng: &mut Rng, c: &Case, variants: bool) {
    let s = c.solver;
    let mask = vec![true; c.ndev];
    let geo = make_geo_posed(&mask, c.pose);
    let cons = c.constraint.unwrap_or(s.default_constraint());
    let text = case_text(c);
    let mut key_base = format!(
        "{}:{:?}:{}:d{}:m{}:{}",
        c.dir,
        s,
        c.constraint.map(|x| cons_kind(&x)).unwrap_or("default"),
        c.ndev,
        c.foci.len(),
        match &c.kind {
            Kind::Single(_) => "single",
            Kind::Unreach(_) => "unreachable",
            Kind::Multi(_) => "multi",
            Kind::Free => "free",
        }
    );
    if c.pose != 0 {
        key_base += &format!(":pose{}", c.pose);
    }
    if !c.opt.is_default() {
        key_base += &format!(":{}", c.opt.tok());
    }
    ctx.out.count(if c.pose == 0 { "B geometry flat (one orientation, one sound speed)" } else { "B geometry posed (per-device tilt and sound speed; oracle only)" });
    ctx.out.count(&format!("B option {}", if c.opt.is_default() { "default".to_string() } else { format!("{:?} {} (oracle only)", s, c.opt.tok().split('+').map(|t| t.trim_end_matches(|ch: char| ch.is_ascii_digit()).to_string()).collect::<Vec<_>>().join("+")) }));
    let case_id = fnv64(text.as_bytes());
    ctx.out.case(Some(case_id));
    ctx.out.count(&format!("B solver {s:?}"));
    ctx.out.count(&format!("B directivity {}", c.dir));
    ctx.out.count(&format!("B constraint {}", c.constraint.map(|x| cons_kind(&x)).unwrap_or("default")));
    ctx.out.count(&format!("B devices {} foci {} path {}", c.ndev, c.foci.len(), if c.ndev < c.foci.len() { "rows" } else { "ptr" }));
    let base = match solve::<D>(s, &c.foci, c.constraint, &geo, None, &c.opt) {
        Ok(d) => d,
        Err(e) => {
            ctx.out.violation(format!("holo:fail:{key_base}"), format!("solver failed: {e}"), vec![text.clone()]);
            return;
        }
    };
    // (e) every returned intensity satisfies the constraint — exact
    if let Some(w) = check_constraint(&cons, s, &base, &geo, None) {
        ctx.out.violation(format!("holo:constraint:{key_base}"), w, vec![text.clone()]);
    }
    // (e') Greedy: every returned phase is one of the `phase_div` candidates — exact
    if s == Solver::Greedy {
        let div = c.opt.phase_div.unwrap_or(16);
        let set = greedy_phase_set(div);
        let bad = geo.devices().flat_map(|dev| base[dev.idx()].as_ref().unwrap().iter().map(move |d| (dev.idx(), *d))).find(|(_, d)| !set[d.phase.0 as usize]);
        if let Some((di, d)) = bad {
            ctx.out.violation(
                format!("holo:greedy-phase-candidates:{key_base}"),
                format!("Greedy with phase_div = {div} returned phase {} on device {di}, which is none of the {div} candidates exp(2 pi i k / {div})", d.phase.0),
                vec![text.clone()],
            );
        }
    }
    // (a)–(d) numerical support checks
    let tag = format!("{} {:?}", c.dir, s);
    match &c.kind {
        Kind::Single(frac) => {
            let (p, a) = c.foci[0];
            let pr = pressure::<D>(&geo, &base, &p);
            let rel = pr / a as f64 - 1.0;
            let clipped = geo.devices().any(|dev| base[dev.idx()].as_ref().unwrap().iter().any(|d| d.intensity.0 == 255));
            let known_class = is_known_clip(s, c.constraint.is_none(), c.dir, c.ndev, *frac, clipped, rel);
            if known_class {
                ctx.margin(&format!("single {} linear solvers, some transducer clipped at 255 (known finding): P/a-1", c.dir), rel);
            } else {
                ctx.margin(&format!("single {tag}: P/a-1 (threshold +-{TH_SINGLE_REL})"), rel);
            }
            if rel.abs() > TH_SINGLE_REL {
                let key = if known_class { KNOWN_CLIP_KEY.to_string() } else { format!("holo:single-pressure:{key_base}") };
                ctx.out.violation(key, format!("requested {a} Pa = {frac:.2} of the full-power focus, delivered {pr:.1} Pa ({:+.1} %)", rel * 100.0), vec![text.clone()]);
            }
        }
        Kind::Unreach(mult) => {
            let (p, a) = c.foci[0];
            let pr = pressure::<D>(&geo, &base, &p);
            let r = pr / c.pfull[0];
            ctx.margin(&format!("unreachable {tag}: P/P_full (threshold >= {TH_UNREACH})"), r);
            if r < TH_UNREACH {
                ctx.out.violation(format!("holo:unreachable-pressure:{key_base}"), format!("requested {a} Pa = {mult:.1} x the full-power focus ({:.1} Pa), delivered only {pr:.1} Pa", c.pfull[0]), vec![text.clone()]);
            }
        }
        Kind::Multi(_) => {
            let a = c.foci[0].1 as f64;
            let prs: Vec<f64> = c.foci.iter().map(|(p, _)| pressure::<D>(&geo, &base, p)).collect();
            let mn = prs.iter().cloned().fold(f64::INFINITY, f64::min);
            let mx = prs.iter().cloned().fold(0.0, f64::max);
            ctx.margin(&format!("multi {tag}: min_k P_k/a (threshold >= {TH_MULTI_MIN})"), mn / a);
            ctx.margin(&format!("multi {tag}: max P/min P (threshold <= {TH_MULTI_BAL})"), mx / mn);
            if mn / a < TH_MULTI_MIN {
                ctx.out.violation(format!("holo:multi-fraction:{key_base}"), format!("a target receives {mn:.1} Pa of the requested {a:.1} Pa (pressures {prs:.1?})"), vec![text.clone()]);
            }
            if mx / mn > TH_MULTI_BAL {
                ctx.out.violation(format!("holo:multi-balance:{key_base}"), format!("targets are served unevenly: pressures {prs:.1?} for equal requests of {a:.1} Pa"), vec![text.clone()]);
            }
        }
        Kind::Free => {}
    }
    if c.foci.len() == 1 && s.linear() && c.foci[0].1 > 0.0 && c.foci[0].1.is_finite() {
        // (c) the Focus gain's phase pattern up to a common offset, within one step
        let fd = focus_drives(&geo, c.foci[0].0);
        let mut diffs = vec![];
        for dev in geo.devices() {
            for tr in dev.iter() {
                diffs.push(base[dev.idx()].as_ref().unwrap()[tr.idx()].phase.0.wrapping_sub(fd[dev.idx()].as_ref().unwrap()[tr.idx()].phase.0));
            }
        }
        let w = arc(&diffs);
        ctx.margin(&format!("single {tag}: phase-difference arc vs Focus in steps (threshold <= {TH_ARC})"), w as f64);
        if w > TH_ARC {
            ctx.out.violation(format!("holo:focus-phase:{key_base}"), format!("phases differ from the Focus gain's by offsets spread over {w} steps"), vec![text.clone()]);
        }
    }
    // (h) `repeat` is looked at: with several targets one iteration gives other drives than the default hundred
    // (evaluated over the whole run, see `part_b`: a single coincidence is not a finding)
    if let (Kind::Multi(_), true, true) = (&c.kind, matches!(s, Solver::GS | Solver::GSPAT), c.opt.is_default() && c.foci.len() >= 2) {
        if let Ok(one) = solve::<D>(s, &c.foci, c.constraint, &geo, None, &Opt { repeat: Some(1), ..Opt::default() }) {
            let e = ctx.repeat_probe.entry(format!("{s:?}")).or_insert((0, 0));
            e.0 += 1;
            if same_drives(&base, &geo, &one, &geo).is_some() {
                e.1 += 1;
            }
        }
    }
    if !variants {
        return;
    }
    // (f) disabled devices and an all-true filter change nothing — byte-identical (Greedy shuffles with
    // a thread-local RNG, its drives are not reproducible: its variants go through the checks above)
    let extra = rng.range(1, 2) as usize;
    let mut xmask = mask.clone();
    for _ in 0..extra {
        xmask.insert(rng.below(xmask.len() as u64 + 1) as usize, false);
    }
    let xgeo = make_geo_posed(&xmask, c.pose);
    let mtxt = xmask.iter().map(|e| if *e { "e" } else { "d" }).collect::<Vec<_>>().join("");
    let variants: Vec<(&str, &Geometry, Option<Filter>)> = vec![
        ("disabled-devices", &xgeo, None),
        ("all-true-filter", &geo, Some(all_true_filter(&geo, false))),
        ("disabled-devices+all-true-filter", &xgeo, Some(all_true_filter(&xgeo, rng.chance(1, 2)))),
    ];
    for (name, g, f) in variants {
        ctx.out.count(&format!("B variant {name}"));
        match solve::<D>(s, &c.foci, c.constraint, g, f.as_ref(), &c.opt) {
            Err(e) => ctx.out.violation(format!("holo:variant-fail:{name}:{key_base}"), format!("with {name} (mask {mtxt}) the solver failed: {e}"), vec![text.clone(), format!("variant {name} mask={mtxt}")]),
            Ok(d) => {
                if let Some(w) = check_constraint(&cons, s, &d, g, f.as_ref()) {
                    ctx.out.violation(format!("holo:constraint:{name}:{key_base}"), w, vec![text.clone(), format!("variant {name} mask={mtxt}")]);
                }
                if s != Solver::Greedy {
                    if let Some(w) = same_drives(&base, &geo, &d, g) {
                        ctx.out.violation(
                            format!("holo:invariance:{name}:{key_base}"),
                            format!("the drives change with {name} (mask {mtxt}): {w}"),
                            vec![text.clone(), format!("variant {name} mask={mtxt}")],
                        );
                    }
                } else if let Kind::Single(_) = c.kind {
                    let (p, a) = c.foci[0];
                    let rel = pressure::<D>(g, &d, &p) / a as f64 - 1.0;
                    ctx.margin(&format!("single {tag}: P/a-1 (threshold +-{TH_SINGLE_REL})"), rel);
                    if rel.abs() > TH_SINGLE_REL {
                        ctx.out.violation(format!("holo:single-pressure:{name}:{key_base}"), format!("with {name}: delivered {:+.1} % off the request", rel * 100.0), vec![text.clone(), format!("variant {name} mask={mtxt}")]);
                    }
                }
            }
        }
    }
    // (g) PARTIAL filters (coverage review C15 gap 1), all five solvers, with and without disabled devices in
    // between; some enabled device may be missing from the filter or have an all-false entry.  Exact: the constraint
    // inside the filter and `Drive::NULL` outside; for the deterministic solvers the drives of the selected
    // transducers are byte-identical to solving WITHOUT a filter on the geometry that consists of the selected
    // transducers only (same positions, rotations, sound speeds).
    for (name, g) in [("partial-filter", &geo), ("partial-filter+disabled", &xgeo)] {
        let filter = partial_filter(rng, g);
        let ftxt = {
            let mut es: Vec<String> = g
                .iter()
                .map(|d| match filter.get(&d.idx()) {
                    None => format!("{}:-", d.idx()),
                    Some(b) => format!("{}:{}/{}#{:x}", d.idx(), b.iter().filter(|x| *x).count(), b.len(), fnv64(&b.iter().map(|x| x as u8).collect::<Vec<_>>()) & 0xffff),
                })
                .collect();
            es.insert(0, format!("mask={}", g.iter().map(|d| if d.enable { 'e' } else { 'd' }).collect::<String>()));
            es.join(" ")
        };
        let replay = vec![text.clone(), format!("variant {name}: filter (device:selected/transducers#hash, - = no entry) {ftxt}")];
        ctx.out.count(&format!("B variant {name}"));
        if g.devices().any(|d| !filter.contains_key(&d.idx())) {
            ctx.out.count("B partial filter: an enabled device has no entry");
        }
        let d = match solve::<D>(s, &c.foci, c.constraint, g, Some(&filter), &c.opt) {
            Err(e) => {
                ctx.out.violation(format!("holo:variant-fail:{name}:{key_base}"), format!("with a partial filter ({ftxt}) the solver failed: {e}"), replay);
                continue;
            }
            Ok(d) => d,
        };
        if let Some(w) = check_constraint(&cons, s, &d, g, Some(&filter)) {
            ctx.out.violation(format!("holo:constraint:{name}:{key_base}"), format!("with a partial filter ({ftxt}): {w}"), replay.clone());
        }
        if s == Solver::Greedy {
            let set = greedy_phase_set(c.opt.phase_div.unwrap_or(16));
            if g.devices().any(|dev| d[dev.idx()].as_ref().unwrap().iter().any(|x| !set[x.phase.0 as usize])) {
                ctx.out.violation(format!("holo:greedy-phase-candidates:{name}:{key_base}"), format!("with a partial filter ({ftxt}) Greedy returned a phase that is none of its candidates"), replay.clone());
            }
        } else {
            let (rg, origin) = rebuild_selected(g, &filter);
            match solve::<D>(s, &c.foci, c.constraint, &rg, None, &c.opt) {
                Err(e) => ctx.out.violation(format!("holo:variant-fail:{name}:rebuilt:{key_base}"), format!("on the geometry of the selected transducers only the solver failed: {e}"), replay.clone()),
                Ok(r) => {
                    let mut bad: Option<String> = None;
                    'o: for (k, (di, sel)) in origin.iter().enumerate() {
                        for (j, t) in sel.iter().enumerate() {
                            let (a, b) = (d[*di].as_ref().unwrap()[*t], r[k].as_ref().unwrap()[j]);
                            if a != b {
                                bad = Some(format!("transducer {di}.{t}: {a:?} with the filter, {b:?} as transducer {k}.{j} of the geometry that consists of the selected transducers only"));
                                break 'o;
                            }
                        }
                    }
                    if let Some(w) = bad {
                        ctx.out.violation(format!("holo:filter-equals-subgeometry:{name}:{key_base}"), format!("partial filter ({ftxt}): {w}"), replay.clone());
                    }
                }
            }
        }
        // numerical support: one reachable target, requested relative to what the SELECTED transducers can deliver
        if let (Kind::Single(frac), true, "partial-filter") = (&c.kind, c.opt.is_default(), name) {
            let p = c.foci[0].0;
            let mut fd = focus_drives(g, p);
            for dev in g.devices() {
                let b = filter.get(&dev.idx());
                for (t, x) in fd[dev.idx()].as_mut().unwrap().iter_mut().enumerate() {
                    if !b.is_some_and(|b| b[t]) {
                        *x = Drive::NULL;
                    }
                }
            }
            let pf = pressure::<D>(g, &fd, &p);
            let a = (pf * frac) as f32;
            match solve::<D>(s, &[(p, a)], c.constraint, g, Some(&filter), &c.opt) {
                Err(e) => ctx.out.violation(format!("holo:variant-fail:{name}:single:{key_base}"), format!("with a partial filter ({ftxt}) the solver failed: {e}"), replay.clone()),
                Ok(d2) => {
                    let rel = pressure::<D>(g, &d2, &p) / a as f64 - 1.0;
                    let clipped = g.devices().any(|dev| d2[dev.idx()].as_ref().unwrap().iter().any(|x| x.intensity.0 == 255));
                    let known_class = is_known_clip(s, c.constraint.is_none(), c.dir, c.ndev, *frac, clipped, rel);
                    if known_class {
                        ctx.margin(&format!("single {} linear solvers, some transducer clipped at 255 (known finding): P/a-1", c.dir), rel);
                    } else {
                        ctx.margin(&format!("single {tag} partial filter: P/a-1 (threshold +-{TH_SINGLE_REL})"), rel);
                    }
                    if rel.abs() > TH_SINGLE_REL {
                        let key = if known_class { KNOWN_CLIP_KEY.to_string() } else { format!("holo:single-pressure:{name}:{key_base}") };
                        ctx.out.violation(key, format!("partial filter ({ftxt}): requested {a} Pa = {frac:.2} of what the selected transducers deliver at full power, delivered {:+.1} % off", rel * 100.0), replay.clone());
                    }
                }
            }
        }
    }
}

fn gen_case<D: Directivity + 'static>(rng: &mut Rng, dir: char, solver: Solver, ndev: usize, m: usize, kind: Kind, constraint: Option<EmissionConstraint>, pose: u8, opt: Opt) -> Case {
    let geo = make_geo_posed(&vec![true; ndev], pose);
    let ps = gen_foci(rng, ndev, m);
    let pfull: Vec<f64> = ps.iter().map(|p| pressure::<D>(&geo, &focus_drives(&geo, *p), p)).collect();
    let pmin = pfull.iter().cloned().fold(f64::INFINITY, f64::min);
    let foci: Vec<(Point3, f32)> = match &kind {
        Kind::Single(fr) | Kind::Unreach(fr) => vec![(ps[0], (pfull[0] * fr) as f32)],
        Kind::Multi(fr) => ps.iter().map(|p| (*p, (pmin * fr / m as f64) as f32)).collect(),
        Kind::Free => ps.iter().zip(&pfull).map(|(p, pf)| (*p, (pf * (rng.below(2000) as f64 + 1.0) / 1000.0 / m as f64) as f32)).collect(),
    };
    Case { dir, solver, constraint, ndev, foci, kind, pfull, pose, opt }
}

/// corpus: witnesses of past failures, run first, with stable keys
fn corpus(ctx: &mut Ctx, rng: &mut Rng) {
    // GS / GSPAT with a request of exactly 0 Pa normalise 0/0: NaN coefficients; `Clamp(lo > 0, _)` then
    // returned intensity 0 (f32::clamp keeps NaN, NaN as u8 = 0)
    let p = Point3::new(80.0, 60.0, 150.0);
    let q = Point3::new(40.0, 60.0, 150.0);
    for (s, foci, c) in [
        (Solver::GS, vec![(p, 0.0f32)], EmissionConstraint::Clamp(EmitIntensity(10), EmitIntensity(200))),
        (Solver::GSPAT, vec![(p, 0.0f32), (q, 0.0)], EmissionConstraint::Clamp(EmitIntensity(1), EmitIntensity(255))),
        (Solver::Naive, vec![(p, 0.0f32)], EmissionConstraint::Clamp(EmitIntensity(10), EmitIntensity(200))),
    ] {
        let case = Case { dir: 'S', solver: s, constraint: Some(c), ndev: 1, foci, kind: Kind::Free, pfull: vec![], pose: 0, opt: Opt::default() };
        run_case::<Sphere>(ctx, rng, &case, false);
        ctx.out.count("B corpus (zero-amplitude requests under Clamp(lo>0))");
    }
    // the witness of the known finding (thorough tier, seed 1): GS, T4010A1, four devices, corner target at 70 %
    let case = Case {
        dir: 'T',
        solver: Solver::GS,
        constraint: None,
        ndev: 4,
        foci: vec![(Point3::new(12.108704, 21.572826, 147.11), 6317.166)],
        kind: Kind::Single(0.7),
        pfull: vec![6317.166 / 0.7],
        pose: 0,
        opt: Opt::default(),
    };
    run_case::<T4010A1>(ctx, rng, &case, false);
    ctx.out.count("B corpus (known finding: T4010A1 linear solver clips)");
}

/// non-default solver options (half of the time): GS / GSPAT `repeat`, Greedy `phase_div`, LM `initial` / `k_max`
fn rand_opt(rng: &mut Rng, s: Solver) -> Opt {
    if rng.chance(1, 2) {
        return Opt::default();
    }
    match s {
        Solver::Naive => Opt::default(),
        Solver::GS | Solver::GSPAT => Opt { repeat: Some(*rng.pick(&[1usize, 2, 100, 200])), ..Opt::default() },
        Solver::Greedy => Opt { phase_div: Some(*rng.pick(&[1u8, 2, 3, 16, 255])), ..Opt::default() },
        Solver::LM => Opt {
            lm_initial: if rng.chance(2, 3) { Some(if rng.chance(1, 3) { 0 } else { rng.range(1, 1 << 20) }) } else { None },
            lm_k_max: if rng.chance(1, 2) { Some(*rng.pick(&[1usize, 2, 8])) } else { None },
            ..Opt::default()
        },
    }
}

fn part_b(ctx: &mut Ctx, rng: &mut Rng, thorough: bool) {
    let rounds = if thorough { 45 } else { 10 };
    for round in 0..rounds {
        for s in SOLVERS {
            for dir in ['S', 'T'] {
                // LM costs ~1 s on four devices (dense LU of (n+m)^2): mostly one or two devices
                let pick_ndev = |rng: &mut Rng| -> usize {
                    if s == Solver::LM { *rng.pick(&[1usize, 1, 1, 2, 2, 3, 4][..if thorough { 7 } else { 5 }]) } else { rng.range(1, 4) as usize }
                };
                let mut cases: Vec<(Case, bool)> = vec![];
                macro_rules! mk {
                    ($nd:expr, $m:expr, $k:expr, $c:expr, $v:expr, $o:expr) => {{
                        let nd = $nd;
                        let (m_, k_, c_, o_) = ($m, $k, $c, $o);
                        // (gap 2) a third of the cases on devices with their own tilt and sound speed
                        let pose = if rng.chance(1, 3) { 1 + rng.below(3) as u8 } else { 0 };
                        let case = if dir == 'S' { gen_case::<Sphere>(rng, dir, s, nd, m_, k_, c_, pose, o_) } else { gen_case::<T4010A1>(rng, dir, s, nd, m_, k_, c_, pose, o_) };
                        cases.push((case, $v));
                    }};
                }
                let dflt = Opt::default;
                // single reachable target, default constraint (boundary fractions first)
                let fr = [0.7, 0.1, 0.35, 0.6, 0.2][round % 5];
                mk!(pick_ndev(rng), 1, Kind::Single(fr), None, true, dflt());
                // (gap 3) GS / GSPAT: every iterate serves a single target (theorem C) — any number of iterations
                let o2 = if matches!(s, Solver::GS | Solver::GSPAT) && round % 2 == 1 { Opt { repeat: Some(*rng.pick(&[1usize, 2, 3, 200])), ..Opt::default() } } else { dflt() };
                mk!(pick_ndev(rng), 1, Kind::Single(0.1 + 0.6 * rng.below(1001) as f64 / 1000.0), None, false, o2);
                // out of reach
                mk!(pick_ndev(rng), 1, Kind::Unreach(*rng.pick(&[1.2, 1.5, 3.0, 10.0])), None, round % 2 == 0, dflt());
                // several targets, device count on both sides of the path switch
                let nd = pick_ndev(rng);
                let m_rows = (nd + 1 + rng.below(8 - nd as u64) as usize).min(8);
                mk!(nd, m_rows, Kind::Multi(0.2 + 0.4 * rng.below(1001) as f64 / 1000.0), None, true, dflt());
                let nd = if s == Solver::LM { 2 } else { rng.range(2, 4) as usize };
                let m_ptr = rng.range(2, nd as u64) as usize;
                mk!(nd, m_ptr, Kind::Multi(0.2 + 0.4 * rng.below(1001) as f64 / 1000.0), None, round % 2 == 1, dflt());
                // every constraint variant with arbitrary bounds: exact clauses only
                for _ in 0..2 {
                    let c = rand_constraint(rng, false);
                    let nd = pick_ndev(rng);
                    // (gap 3) the other solver options, where only the exact clauses are checked
                    let o = rand_opt(rng, s);
                    mk!(nd, rng.range(1, 8) as usize, Kind::Free, Some(c), true, o);
                }
                for (case, variants) in &cases {
                    if dir == 'S' {
                        run_case::<Sphere>(ctx, rng, case, *variants);
                    } else {
                        run_case::<T4010A1>(ctx, rng, case, *variants);
                    }
                    if ctx.out.samples.len() < 3 {
                        ctx.out.sample(case_text(case));
                    }
                }
            }
        }
    }
    for (solver, (n, differ)) in std::mem::take(&mut ctx.repeat_probe) {
        ctx.out.count_n(&format!("B option probe {solver}: repeat=1 vs default on several targets, runs"), n as u64);
        ctx.out.count_n(&format!("B option probe {solver}: ... of which the drives differ"), differ as u64);
        if n >= 3 && differ == 0 {
            ctx.out.violation(
                format!("holo:option-ignored:{solver}.repeat"),
                format!("{solver} with repeat = 1 returned byte-identical drives to repeat = 100 in all {n} cases with several targets: the option has no effect"),
                vec![format!("{solver}: any case with >= 2 targets, GSOption/GSPATOption {{ repeat: 1 }} vs default")],
            );
        }
    }
}

pub fn run(args: &Args) {
    if args.extra.iter().any(|x| x == "single") {
        probe_single();
        return;
    }
    if args.extra.iter().any(|x| x == "zero") {
        probe_zero();
        return;
    }
    let thorough = args.tier == "thorough";
    let mut ctx = Ctx { out: Out::new(&args.out), marg: BTreeMap::new(), repeat_probe: BTreeMap::new() };
    let mut rng = Rng::new(args.seed ^ 0xC15);
    ctx.out.sample("conv C:64:192 3f000000:3f800000 → 128".into());
    ctx.out.sample("cols 3 e3,d2,e4 F0=101;2=0110 → n=4 0.0 0.2 2.1 2.2".into());
    ctx.out.sample("map e3,d2,e4 F0=101;2=0110 → 0:0,-,1 2:-,2,3,-".into());
    corpus(&mut ctx, &mut rng);
    part_a(&mut ctx, &mut rng, thorough);
    part_b(&mut ctx, &mut rng, thorough);
    // the measured extremes of the numerical support checks (units of 1e-4; P/a-1 as absolute value)
    let marg = std::mem::take(&mut ctx.marg);
    for (k, (lo, hi)) in marg {
        if k.contains("P/a-1") {
            ctx.out.count_n(&format!("measured x1e4 worst |{k}|"), (lo.abs().max(hi.abs()) * 1e4).round() as u64);
        } else if k.contains(">=") {
            ctx.out.count_n(&format!("measured x1e4 min [{k}]"), (lo * 1e4).round() as u64);
        } else {
            ctx.out.count_n(&format!("measured x1e4 max [{k}]"), (hi * 1e4).round() as u64);
        }
        ctx.out.notes.push(format!("{k}: min {lo:.4} max {hi:.4}"));
    }
    ctx.out.finish(
        "holo",
        "part A: a case is one (constraint, value, max) conversion, or one (geometry, enable mask, filter, foci count) index-map query; non-trivial = at least one enabled device (index maps) / every conversion; distinct by the op text. part B: a case is one (directivity, solver, constraint, devices, pose, options, target set) solve with its field evaluation, distinct by all of those; oracle-only dimensions shown by the `B geometry ...`, `B option ...`, `B variant partial-filter...` counters: per-device tilt / sound speed, solver options other than the constraint, partial filters (exact: NULL outside, constraint inside, byte-identical to the geometry of the selected transducers only)",
    );
}

pub fn probe_zero() {
    let geo = make_geo(&[true]);
    let p = Point3::new(80.0, 60.0, 150.0);
    for s in SOLVERS {
        for (name, foci) in [("zero", vec![(p, 0.0f32)]), ("two-zero", vec![(p, 0.0f32), (Point3::new(40.0, 60.0, 150.0), 0.0)]), ("one-zero-one-pos", vec![(p, 0.0f32), (Point3::new(40.0, 60.0, 150.0), 1000.0)]), ("neg", vec![(p, -1000.0f32)]), ("inf", vec![(p, f32::INFINITY)]), ("nan", vec![(p, f32::NAN)]), ("huge", vec![(p, 1e30f32)]), ("tiny", vec![(p, 1e-30f32)])] {
            let c = EmissionConstraint::Clamp(EmitIntensity(10), EmitIntensity(200));
            match solve::<Sphere>(s, &foci, Some(c), &geo, None, &Opt::default()) {
                Ok(d) => {
                    let v = d[0].as_ref().unwrap();
                    let mn = v.iter().map(|x| x.intensity.0).min().unwrap();
                    let mx = v.iter().map(|x| x.intensity.0).max().unwrap();
                    eprintln!("{s:?} {name}: intensity min {mn} max {mx} phase0 {}", v[0].phase.0);
                }
                Err(e) => eprintln!("{s:?} {name}: {e}"),
            }
        }
    }
}

pub fn probe_single() {
    let mut rng = Rng::new(99);
    for s in [Solver::LM, Solver::Greedy, Solver::GS] {
        for ndev in 1..=(if s == Solver::LM { 2 } else { 4 }) as usize {
            let geo = make_geo(&vec![true; ndev]);
            for frac in [0.05, 0.1, 0.2, 0.4, 0.7] {
                let mut rels: Vec<f64> = vec![];
                for _ in 0..(if s == Solver::LM { 150 } else { 400 }) {
                    let p = gen_foci(&mut rng, ndev, 1)[0];
                    let pf = pressure::<Sphere>(&geo, &focus_drives(&geo, p), &p);
                    let a = (pf * frac) as f32;
                    let d = solve::<Sphere>(s, &[(p, a)], None, &geo, None, &Opt::default()).unwrap();
                    rels.push(pressure::<Sphere>(&geo, &d, &p) / a as f64 - 1.0);
                }
                rels.sort_by(|a, b| a.partial_cmp(b).unwrap());
                let n = rels.len();
                let n5 = rels.iter().filter(|r| r.abs() > 0.05).count();
                eprintln!("{s:?} ndev {ndev} frac {frac}: min {:.4} p1 {:.4} max {:.4}  >5%: {n5}/{n}", rels[0], rels[n / 100], rels[n - 1]);
            }
        }
    }
}
