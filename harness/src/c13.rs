//! `group` stream (C13): the real `group_send` (sync and async copies) through a fault-injecting,
//! recording wrapper around the repository's `Audit` link, against the Lean model `Model/Group.lean`,
//! plus the implementation oracle:
//!   * the `enable` flag of every device after the call equals the flag before it (every exit path);
//!   * on `Ok`, every mapped device is in the state a plain `send` of its datagram puts it in
//!     (reference: fresh controller whose enabled set is the device's group; and, for the part of the
//!     state that does not depend on the enabled set, a fresh controller with that device alone);
//!   * on every exit a mapped device has received nothing but a prefix of its own frames;
//!   * devices mapped to no key, and disabled devices, are untouched (state, ack, no frame);
//!   * `UnknownKey`/`UnusedKey` exactly when keys and datagrams do not match, nothing transmitted;
//!   * every operation is packed for (into the slot of) the device it was generated for; the probe
//!     gain writes that device's index into transducer 1, so frames and read-back show it;
//!   * `datagram_option`: each generator is built with `is_parallel(|group|, its threshold)`, the frames
//!     are packed on the rayon pool iff `is_parallel(enabled devices, smallest threshold)` (observed:
//!     the thread `Operation::pack` runs on), and the call waits for acknowledgements like a send with
//!     the largest timeout (observed under a link that withholds acknowledgements for k receives / for
//!     good: receives per transmission, `Ok` vs `ConfirmResponseFailed`; timeouts are 0, 3 ms where
//!     nothing ever arrives and 10 s where it does, so no answer depends on the machine's speed).
//!
//! Every datagram travels in a pass-through wrapper (`WithOpt`/`SpyGen`/`SpyOp`) that supplies an
//! explicit `option()` and logs what `operation_generator` and `pack` are handed. Besides the probe
//! gain / modulation the stream uses tuples `(ProbeMod, ProbeGain)` and `autd3_gain_holo::Naive`
//! (oracle only), all four entry points, and HISTORIES: earlier calls on the same controller (the
//! references of the oracle replay the same history). A history that leaves a packed, never
//! transmitted frame in a tx slot is oracle-only; on the unchanged code it is a finding
//! (`group:unsent-frame-delivered-later:*`, corpus).
//!
//! `HashMap` iteration order inside `group_send` cannot be chosen from outside; it is *observed*
//! (probe datagrams log the order in which their generators are built) and every case is re-run on
//! fresh controllers until every order class has been seen; lines are emitted sorted by order, so
//! the stream is the same on every run.
use crate::common::*;
use autd3::link::{Audit, AuditOption};
use autd3::prelude::*;
use autd3_core::acoustics::directivity::Sphere;
use autd3_core::derive::*;
use autd3_core::link::{AsyncLink, Link, LinkError};
use autd3_driver::datagram::{BoxedDatagram, Datagram, IntoBoxedDatagram};
use autd3_driver::firmware::cpu::{RxMessage, TxMessage};
use autd3_driver::firmware::operation::{Operation, OperationGenerator};
use autd3_firmware_emulator::CPUEmulator;
use autd3_gain_holo::{NalgebraBackend, Naive, NaiveOption, Pa};
use std::collections::{BTreeMap, BTreeSet, HashMap};
use std::sync::{Arc, Mutex};
use std::time::{Duration, Instant};

// ------------------------------------------------------------------------------------------------
// probe datagrams

/// what the probes see of one call
#[derive(Default, Debug, Clone)]
struct Logs {
    /// per `Datagram::operation_generator` call: (key, enabled mask of the geometry handed in, `parallel` argument)
    gens: Vec<(u8, u32, bool)>,
    /// what `Gain::init_full` was told: (key, `parallel`)
    gain_par: Vec<(u8, bool)>,
    /// per `Operation::pack` call: (device the operation was generated for, device it is packed for,
    /// called on another thread than the one that called `group_send` = the rayon pool)
    packs: Vec<(usize, usize, bool)>,
}
type VisitLog = Arc<Mutex<Logs>>;

fn enabled_mask(geometry: &Geometry) -> u32 {
    geometry.iter().fold(0u32, |m, d| if d.enable { m | (1 << d.idx()) } else { m })
}

#[derive(Gain, Debug)]
struct ProbeGain {
    id: u8,
    fail: bool,
    key: u8,
    log: VisitLog,
}
struct ProbeGen(Drive);
/// every transducer carries (enabled mask seen by `init_full`, id); transducer 1 carries the index
/// (+1) of the device the calculator was generated for instead of the mask
struct ProbeCalc(Drive, u8);
impl GainCalculator for ProbeCalc {
    fn calc(&self, tr: &Transducer) -> Drive {
        if tr.idx() == 1 { Drive { phase: Phase(self.1), intensity: self.0.intensity } } else { self.0 }
    }
}
impl GainCalculatorGenerator for ProbeGen {
    type Calculator = ProbeCalc;
    fn generate(&mut self, dev: &Device) -> ProbeCalc {
        ProbeCalc(self.0, dev.idx() as u8 + 1)
    }
}
impl Gain for ProbeGain {
    type G = ProbeGen;
    fn init(self) -> Result<ProbeGen, GainError> {
        Err(GainError::new("probe: init() without geometry"))
    }
    fn init_full(self, geometry: &Geometry, _: Option<&HashMap<usize, BitVec>>, parallel: bool) -> Result<ProbeGen, GainError> {
        let mask = enabled_mask(geometry);
        self.log.lock().unwrap().gain_par.push((self.key, parallel));
        if self.fail {
            return Err(GainError::new(format!("probe:{}:", self.id)));
        }
        Ok(ProbeGen(Drive { phase: Phase(mask as u8), intensity: EmitIntensity(self.id) }))
    }
}

#[derive(Modulation, Debug)]
struct ProbeMod {
    id: u8,
    len: usize,
    fail: bool,
}
impl Modulation for ProbeMod {
    fn calc(self) -> Result<Vec<u8>, ModulationError> {
        if self.fail {
            return Err(ModulationError::new(format!("probe:{}:", self.id)));
        }
        Ok(vec![self.id; self.len])
    }
    fn sampling_config(&self) -> SamplingConfig {
        SamplingConfig::FREQ_4K
    }
}

/// Any datagram with (optionally) an explicit `option()`; logs the arguments of `operation_generator`
/// and wraps every operation so that `pack` calls are logged.
#[derive(Debug)]
struct WithOpt<D> {
    inner: D,
    opt: Option<DatagramOption>,
    key: u8,
    log: VisitLog,
}
struct SpyGen<G> {
    inner: G,
    log: VisitLog,
    main: std::thread::ThreadId,
}
struct SpyOp<O> {
    inner: O,
    gen_dev: usize,
    log: VisitLog,
    main: std::thread::ThreadId,
}
impl<O: Operation> Operation for SpyOp<O> {
    type Error = O::Error;
    fn required_size(&self, dev: &Device) -> usize {
        self.inner.required_size(dev)
    }
    fn pack(&mut self, dev: &Device, tx: &mut [u8]) -> Result<usize, O::Error> {
        self.log.lock().unwrap().packs.push((self.gen_dev, dev.idx(), std::thread::current().id() != self.main));
        self.inner.pack(dev, tx)
    }
    fn is_done(&self) -> bool {
        self.inner.is_done()
    }
}
impl<G: OperationGenerator> OperationGenerator for SpyGen<G> {
    type O1 = SpyOp<G::O1>;
    type O2 = SpyOp<G::O2>;
    fn generate(&mut self, dev: &Device) -> (Self::O1, Self::O2) {
        let (a, b) = self.inner.generate(dev);
        (
            SpyOp { inner: a, gen_dev: dev.idx(), log: self.log.clone(), main: self.main },
            SpyOp { inner: b, gen_dev: dev.idx(), log: self.log.clone(), main: self.main },
        )
    }
}
impl<D: Datagram> Datagram for WithOpt<D>
where
    D::G: OperationGenerator,
{
    type G = SpyGen<D::G>;
    type Error = D::Error;
    fn operation_generator(self, geometry: &Geometry, parallel: bool) -> Result<Self::G, Self::Error> {
        self.log.lock().unwrap().gens.push((self.key, enabled_mask(geometry), parallel));
        let log = self.log.clone();
        Ok(SpyGen { inner: self.inner.operation_generator(geometry, parallel)?, log, main: std::thread::current().id() })
    }
    fn option(&self) -> DatagramOption {
        self.opt.unwrap_or_else(|| self.inner.option())
    }
}

#[derive(Clone, Copy, PartialEq, Eq, Debug, Hash, PartialOrd, Ord)]
enum Kind {
    Gain,
    Mod,
    /// `(ProbeMod, ProbeGain)`: both operations of the pair are used (oracle only: not in the model)
    Tuple,
    /// `autd3_gain_holo::Naive` with one focus: a real geometry-wide gain (oracle only)
    Holo,
}
const THR_MAX: usize = usize::MAX;
#[derive(Clone, Copy, PartialEq, Eq, Debug, Hash, PartialOrd, Ord)]
struct DgSpec {
    kind: Kind,
    id: u8,
    len: usize,
    fail: bool,
    /// explicit `Datagram::option()`: (timeout in ms, parallel threshold); `None` = what the datagram says itself
    opt: Option<(u32, usize)>,
}
impl DgSpec {
    const fn g(id: u8) -> Self {
        DgSpec { kind: Kind::Gain, id, len: 0, fail: false, opt: None }
    }
    const fn m(id: u8, len: usize) -> Self {
        DgSpec { kind: Kind::Mod, id, len, fail: false, opt: None }
    }
    const fn t(id: u8, len: usize) -> Self {
        DgSpec { kind: Kind::Tuple, id, len, fail: false, opt: None }
    }
    const fn h(id: u8) -> Self {
        DgSpec { kind: Kind::Holo, id, len: 0, fail: false, opt: None }
    }
    const fn failing(mut self) -> Self {
        self.fail = true;
        self
    }
    const fn with(mut self, timeout_ms: u32, thr: usize) -> Self {
        self.opt = Some((timeout_ms, thr));
        self
    }
    /// id of the gain member of a tuple
    fn tuple_gain_id(&self) -> u8 {
        self.id.wrapping_add(100) | 1
    }
    fn token(&self) -> String {
        let f = if self.fail { "!" } else { "" };
        let o = match self.opt {
            None => String::new(),
            Some((t, p)) => format!("@t{t}p{}", if p == THR_MAX { "max".to_string() } else { p.to_string() }),
        };
        match self.kind {
            Kind::Gain => format!("g{}{f}{o}", self.id),
            Kind::Mod => format!("m{}.{}{f}{o}", self.id, self.len),
            Kind::Tuple => format!("t{}.{}{f}{o}", self.id, self.len),
            Kind::Holo => format!("h{}{f}{o}", self.id),
        }
    }
    /// (timeout ms, parallel threshold) that `option()` reports
    fn option(&self) -> (u32, usize) {
        self.opt.unwrap_or(match self.kind {
            // `#[derive(Gain)]`: 20 ms / 4; `#[derive(Modulation)]`: the default 200 ms / usize::MAX; tuple: max / min
            Kind::Gain | Kind::Holo => (20, 4),
            Kind::Mod => (200, THR_MAX),
            Kind::Tuple => (200, 4),
        })
    }
    fn build(&self, key: u8, log: &VisitLog) -> BoxedDatagram {
        let opt = self.opt.map(|(t, p)| DatagramOption { timeout: Duration::from_millis(t as u64), parallel_threshold: p });
        let log = log.clone();
        match self.kind {
            Kind::Gain => WithOpt { inner: ProbeGain { id: self.id, fail: self.fail, key, log: log.clone() }, opt, key, log }.into_boxed(),
            Kind::Mod => WithOpt { inner: ProbeMod { id: self.id, len: self.len, fail: self.fail }, opt, key, log }.into_boxed(),
            Kind::Tuple => WithOpt {
                inner: (ProbeMod { id: self.id, len: self.len, fail: false }, ProbeGain { id: self.tuple_gain_id(), fail: self.fail, key, log: log.clone() }),
                opt,
                key,
                log,
            }
            .into_boxed(),
            Kind::Holo => WithOpt {
                inner: Naive::new(
                    [(Point3::new(20.0 + self.id as f32, 40.0 + (self.id % 7) as f32 * 10.0, 150.0), 5e3 * Pa)],
                    NaiveOption::<Sphere>::default(),
                    Arc::new(NalgebraBackend::<Sphere>::new()),
                ),
                opt,
                key,
                log,
            }
            .into_boxed(),
        }
    }
    /// the datagram can neither fail when its generator is built nor when it is packed
    fn healthy(&self) -> bool {
        !self.fail && (matches!(self.kind, Kind::Gain | Kind::Holo) || (2..=65536).contains(&self.len))
    }
    /// the Lean model knows the datagram
    fn modelled(&self) -> bool {
        matches!(self.kind, Kind::Gain | Kind::Mod)
    }
}

// ------------------------------------------------------------------------------------------------
// the link: the repository's Audit link + fault injection + a record of what was transmitted

#[derive(Clone, Copy, PartialEq, Eq, Debug)]
enum Fault {
    None,
    /// the `s`-th `Link::send` of the call (0-based) returns `Err`
    Send(usize),
    /// the `Link::receive` that follows the `s`-th successful `send` returns `Err`
    Recv(usize),
    /// after every `send` the first `k` `receive`s still return the acknowledgements from before that send
    Delay(usize),
    /// from the `s`-th `send` on, `receive` keeps returning the acknowledgements from before that send
    NoAck(usize),
}
impl Fault {
    fn token(&self) -> String {
        match self {
            Fault::None => "none".into(),
            Fault::Send(s) => format!("s{s}"),
            Fault::Recv(s) => format!("r{s}"),
            Fault::Delay(k) => format!("d{k}"),
            Fault::NoAck(s) => format!("n{s}"),
        }
    }
    fn withholds(&self) -> bool {
        matches!(self, Fault::Delay(_) | Fault::NoAck(_))
    }
}

struct FaultLink {
    inner: Audit,
    armed: bool,
    fault: Fault,
    sends: usize,
    recv_pending_fail: bool,
    last_ids: Vec<u8>,
    frames_of: Vec<usize>,
    /// per successful `send`: the devices whose frame is new (msg id changed) and what it carries
    rounds: Vec<Vec<String>>,
    /// per successful `send`: how often `receive` was called before the next `send` / the return
    polls: Vec<usize>,
    /// what the last not-withheld `receive` returned
    last_rx: Vec<RxMessage>,
    /// acknowledgements from before the current `send` (withholding faults)
    held: Vec<RxMessage>,
    withhold: bool,
}
impl FaultLink {
    fn new() -> Self {
        FaultLink {
            inner: Audit::new(AuditOption::default()),
            armed: false,
            fault: Fault::None,
            sends: 0,
            recv_pending_fail: false,
            last_ids: vec![],
            frames_of: vec![],
            rounds: vec![],
            polls: vec![],
            last_rx: vec![],
            held: vec![],
            withhold: false,
        }
    }
    fn arm(&mut self, fault: Fault) {
        self.armed = true;
        self.fault = fault;
        self.sends = 0;
        self.recv_pending_fail = false;
        self.withhold = false;
        self.rounds.clear();
        self.polls.clear();
        self.frames_of.iter_mut().for_each(|c| *c = 0);
    }
    fn disarm(&mut self) {
        self.armed = false;
        self.fault = Fault::None;
        self.recv_pending_fail = false;
        self.withhold = false;
    }
    fn cpus(&self) -> &[CPUEmulator] {
        &self.inner
    }
    fn do_send(&mut self, tx: &[TxMessage]) -> Result<(), LinkError> {
        if self.last_ids.len() != tx.len() {
            self.last_ids = vec![0; tx.len()];
            self.frames_of = vec![0; tx.len()];
        }
        if self.armed {
            let s = self.sends;
            self.sends += 1;
            // watchdog: `send_impl` has no bound of its own; the longest legitimate transmission of
            // this stream takes 107 rounds
            if s > 400 {
                return Err(LinkError::new("watchdog"));
            }
            if self.fault == Fault::Send(s) {
                return Err(LinkError::new("fault"));
            }
            if self.fault == Fault::Recv(s) {
                self.recv_pending_fail = true;
            }
            self.withhold = match self.fault {
                Fault::Delay(_) => true,
                Fault::NoAck(from) => s >= from,
                _ => false,
            } && self.last_rx.len() == tx.len();
            if self.withhold && !(matches!(self.fault, Fault::NoAck(from) if s > from)) {
                self.held = self.last_rx.clone();
            }
            let mut round = vec![];
            for (i, t) in tx.iter().enumerate() {
                if t.header.msg_id != self.last_ids[i] {
                    let p = t.payload();
                    let k = self.frames_of[i];
                    self.frames_of[i] += 1;
                    let what = match p[0] {
                        // transducer 0: (mask, id); transducer 1: (device + 1, id)
                        0x30 => format!("g{}.{}.{}", p[5], p[4], p[6]),
                        0x10 => {
                            let begin = p[1] & 1 != 0;
                            let end = p[1] & 2 != 0;
                            let first = if begin { p[16] } else { p[4] };
                            format!("m{}#{}{}", first, k, if end { "e" } else { "" })
                        }
                        t => format!("x{t:02x}"),
                    };
                    round.push(format!("{i}:{what}"));
                }
            }
            self.rounds.push(round);
            self.polls.push(0);
        }
        for (i, t) in tx.iter().enumerate() {
            self.last_ids[i] = t.header.msg_id;
        }
        <Audit as Link>::send(&mut self.inner, tx)
    }
    fn do_receive(&mut self, rx: &mut [RxMessage]) -> Result<(), LinkError> {
        if self.armed {
            if let Some(p) = self.polls.last_mut() {
                *p += 1;
            }
        }
        if self.armed && self.recv_pending_fail {
            self.recv_pending_fail = false;
            return Err(LinkError::new("fault"));
        }
        if self.armed && self.fault.withholds() {
            // `wait_msg_processed` compares `start.elapsed()` with the timeout after this call: make sure
            // the clock has moved, so that a zero timeout has elapsed whatever the clock resolution is
            let t0 = Instant::now();
            while Instant::now() == t0 {
                std::hint::spin_loop();
            }
        }
        <Audit as Link>::receive(&mut self.inner, rx)?;
        let polls = self.polls.last().copied().unwrap_or(0);
        let hold = self.armed
            && self.withhold
            && self.held.len() == rx.len()
            && match self.fault {
                Fault::Delay(k) => polls <= k,
                Fault::NoAck(_) => true,
                _ => false,
            };
        if hold {
            rx.copy_from_slice(&self.held);
        } else {
            self.last_rx = rx.to_vec();
        }
        Ok(())
    }
}
impl Link for FaultLink {
    fn open(&mut self, geometry: &Geometry) -> Result<(), LinkError> {
        <Audit as Link>::open(&mut self.inner, geometry)
    }
    fn close(&mut self) -> Result<(), LinkError> {
        <Audit as Link>::close(&mut self.inner)
    }
    fn send(&mut self, tx: &[TxMessage]) -> Result<(), LinkError> {
        self.do_send(tx)
    }
    fn receive(&mut self, rx: &mut [RxMessage]) -> Result<(), LinkError> {
        self.do_receive(rx)
    }
    fn is_open(&self) -> bool {
        <Audit as Link>::is_open(&self.inner)
    }
}
#[autd3_core::async_trait]
impl AsyncLink for FaultLink {
    async fn open(&mut self, geometry: &Geometry) -> Result<(), LinkError> {
        <Audit as Link>::open(&mut self.inner, geometry)
    }
    async fn close(&mut self) -> Result<(), LinkError> {
        <Audit as Link>::close(&mut self.inner)
    }
    async fn send(&mut self, tx: &[TxMessage]) -> Result<(), LinkError> {
        self.do_send(tx)
    }
    async fn receive(&mut self, rx: &mut [RxMessage]) -> Result<(), LinkError> {
        self.do_receive(rx)
    }
    fn is_open(&self) -> bool {
        <Audit as Link>::is_open(&self.inner)
    }
}

// ------------------------------------------------------------------------------------------------
// cases

#[derive(Clone, Copy, PartialEq, Eq, Debug)]
enum Api {
    /// `Controller::sender(opt).group_send` (sync copy)
    Sync,
    /// `Controller::group_send` shortcut (sync copy): default `SenderOption` (1 ms intervals, `timeout: None`, `ParallelMode::Auto`)
    SyncCtl,
    /// `r#async::Controller::sender(opt).group_send` on a current-thread tokio runtime
    Async,
    /// `r#async::Controller::group_send` shortcut
    AsyncCtl,
}
impl Api {
    fn token(&self) -> &'static str {
        match self {
            Api::Sync => "sync",
            Api::SyncCtl => "sync-ctl",
            Api::Async => "async",
            Api::AsyncCtl => "async-ctl",
        }
    }
    fn is_async(&self) -> bool {
        matches!(self, Api::Async | Api::AsyncCtl)
    }
    fn is_ctl(&self) -> bool {
        matches!(self, Api::SyncCtl | Api::AsyncCtl)
    }
}

#[derive(Clone, Copy, PartialEq, Eq, Debug)]
enum PM {
    Auto,
    On,
    Off,
}
impl PM {
    fn token(&self) -> &'static str {
        match self {
            PM::Auto => "auto",
            PM::On => "on",
            PM::Off => "off",
        }
    }
    fn mode(&self) -> ParallelMode {
        match self {
            PM::Auto => ParallelMode::Auto,
            PM::On => ParallelMode::On,
            PM::Off => ParallelMode::Off,
        }
    }
    /// `ParallelMode::is_parallel` as documented: forced, or more (enabled) devices than the threshold
    fn is_parallel(&self, num_devices: usize, thr: usize) -> bool {
        match self {
            PM::On => true,
            PM::Off => false,
            PM::Auto => num_devices > thr,
        }
    }
}

#[derive(Clone, Debug)]
struct Case {
    en: Vec<bool>,
    km: Vec<Option<u8>>,
    map: Vec<(u8, DgSpec)>,
    fault: Fault,
    api: Api,
    /// `SenderOption::parallel` (the shortcut apis always run with `Auto`)
    pm: PM,
    /// `SenderOption::timeout` in ms (the shortcut apis always run with `None` = the datagrams decide)
    to: Option<u32>,
    /// `Some(d)`: not a `group_send` but a plain `send(d)` (history steps only)
    plain: Option<DgSpec>,
    /// calls made on the same controller before the observed one (each with its own enable mask)
    hist: Vec<Case>,
}
fn bits(v: &[bool]) -> String {
    v.iter().map(|&b| if b { '1' } else { '0' }).collect()
}
fn join<T: ToString>(v: &[T], sep: &str) -> String {
    if v.is_empty() { "-".into() } else { v.iter().map(|x| x.to_string()).collect::<Vec<_>>().join(sep) }
}
impl Case {
    fn n(&self) -> usize {
        self.en.len()
    }
    fn km_token(&self) -> String {
        self.km.iter().map(|k| k.map(|k| (b'0' + k) as char).unwrap_or('-')).collect()
    }
    fn map_token(&self) -> String {
        join(&self.map.iter().map(|(k, d)| format!("{k}={}", d.token())).collect::<Vec<_>>(), ",")
    }
    fn pm_eff(&self) -> PM {
        if self.api.is_ctl() { PM::Auto } else { self.pm }
    }
    fn to_eff(&self) -> Option<u32> {
        if self.api.is_ctl() { None } else { self.to }
    }
    fn to_token(&self) -> String {
        self.to_eff().map(|t| t.to_string()).unwrap_or("none".into())
    }
    /// this step alone, without iteration order and history
    fn step_sig(&self) -> String {
        match self.plain {
            Some(d) => format!("ps n={} en={} dg={} fault={} api={} to={} pm={}", self.n(), bits(&self.en), d.token(), self.fault.token(), self.api.token(), self.to_token(), self.pm_eff().token()),
            None => format!(
                "n={} en={} km={} map={} fault={} api={} to={} pm={}",
                self.n(),
                bits(&self.en),
                self.km_token(),
                self.map_token(),
                self.fault.token(),
                self.api.token(),
                self.to_token(),
                self.pm_eff().token()
            ),
        }
    }
    fn hist_sig(&self) -> String {
        if self.hist.is_empty() { String::new() } else { format!("after[{}] ", self.hist.iter().map(|h| h.step_sig()).collect::<Vec<_>>().join(" ; ")) }
    }
    /// everything but the iteration order
    fn sig(&self) -> String {
        format!("{}{}", self.hist_sig(), self.step_sig())
    }
    /// the op line of this step (`cont`: on the controller of the previous line)
    fn line(&self, order: &[u8], cont: bool) -> String {
        let c = if cont { " cont=1" } else { "" };
        match self.plain {
            Some(d) => format!("ps n={} en={} dg={} fault={} api={} to={} pm={}{c}", self.n(), bits(&self.en), d.token(), self.fault.token(), self.api.token(), self.to_token(), self.pm_eff().token()),
            None => format!(
                "gs n={} en={} km={} map={} order={} fault={} api={} to={} pm={}{c}",
                self.n(),
                bits(&self.en),
                self.km_token(),
                self.map_token(),
                join(order, ","),
                self.fault.token(),
                self.api.token(),
                self.to_token(),
                self.pm_eff().token()
            ),
        }
    }
    /// keys that some enabled device is mapped to, ascending
    fn used_keys(&self) -> Vec<u8> {
        let s: BTreeSet<u8> = (0..self.n()).filter(|&i| self.en[i]).filter_map(|i| self.km[i]).collect();
        s.into_iter().collect()
    }
    fn dg(&self, k: u8) -> Option<DgSpec> {
        self.map.iter().find(|(kk, _)| *kk == k).map(|(_, d)| *d)
    }
    fn group_mask(&self, k: u8) -> Vec<bool> {
        (0..self.n()).map(|i| self.en[i] && self.km[i] == Some(k)).collect()
    }
    /// keys and datagrams match and no datagram can fail
    fn healthy(&self) -> bool {
        let used = self.used_keys();
        used.iter().all(|k| self.dg(*k).is_some()) && self.map.iter().all(|(k, d)| used.contains(k) && d.healthy())
    }
    /// the step can be handed to the Lean model
    fn step_modelled(&self) -> bool {
        match self.plain {
            Some(d) => d.modelled(),
            None => self.map.iter().all(|(_, d)| d.modelled()),
        }
    }
    /// the step may leave a packed frame in a `tx` slot that was never transmitted (the model keeps no `tx` buffer)
    fn may_leave_unsent_frames(&self) -> bool {
        matches!(self.fault, Fault::Send(_)) || self.map.iter().any(|(_, d)| !d.fail && !d.healthy()) || self.plain.map(|d| !d.fail && !d.healthy()).unwrap_or(false)
    }
    fn modelled(&self) -> bool {
        self.step_modelled() && self.hist.iter().all(|h| h.step_modelled() && !h.may_leave_unsent_frames())
    }
    /// what `send_impl` must use as timeout (ms) once every datagram of the map was consumed
    fn eff_timeout(&self) -> u32 {
        self.to_eff().unwrap_or_else(|| self.map.iter().map(|(_, d)| d.option().0).max().unwrap_or(0))
    }
}

/// observable state of one device
#[derive(Clone, PartialEq, Eq, Debug)]
struct Snap {
    intensities: Vec<u8>,
    phases: Vec<u8>,
    gain_mode: bool,
    stm_cycle: usize,
    req_stm: u8,
    modulation: Vec<u8>,
    mod_div: u16,
    req_mod: u8,
    ack: u8,
}
impl Snap {
    fn take(cpu: &CPUEmulator) -> Snap {
        let f = cpu.fpga();
        let d = f.drives_at(Segment::S0, 0);
        Snap {
            intensities: d.iter().map(|x| x.intensity.0).collect(),
            phases: d.iter().map(|x| x.phase.0).collect(),
            gain_mode: f.is_stm_gain_mode(Segment::S0),
            stm_cycle: f.stm_cycle(Segment::S0),
            req_stm: f.req_stm_segment() as u8,
            modulation: f.modulation_buffer(Segment::S0),
            mod_div: f.modulation_freq_division(Segment::S0),
            req_mod: f.req_modulation_segment() as u8,
            ack: cpu.rx().ack(),
        }
    }
    /// the compact form compared with the model:
    /// `g<intensity>.<phase of transducer 0 = mask>.<phase of transducer 1 = device + 1>/m<first sample>.<length>`
    fn obs(&self) -> String {
        let uni = |v: &[u8]| v.iter().all(|&x| x == v[0]);
        let uni_but_1 = |v: &[u8]| v.iter().enumerate().all(|(i, &x)| i == 1 || x == v[0]);
        // (a modulation cut short over an older, longer one legitimately leaves a mixed buffer)
        let q = if uni(&self.intensities) && uni_but_1(&self.phases) { "" } else { "?" };
        format!("g{}.{}.{}/m{}.{}{q}", self.intensities[0], self.phases[0], self.phases[1], self.modulation[0], self.modulation.len())
    }
    /// the part of the state that does not depend on which other devices were enabled, ack aside
    fn core(&self) -> (Vec<u8>, u8, bool, usize, u8, Vec<u8>, u16, u8) {
        (self.intensities.clone(), self.phases[1], self.gain_mode, self.stm_cycle, self.req_stm, self.modulation.clone(), self.mod_div, self.req_mod)
    }
    fn no_ack(&self) -> Snap {
        Snap { ack: 0, ..self.clone() }
    }
}

struct RunOut {
    result: String,
    /// results of the history steps
    hist_results: Vec<String>,
    before: Vec<bool>,
    after: Vec<bool>,
    /// `operation_generator` calls of the observed step, in order: (key, enabled mask handed in, `parallel`)
    visited: Vec<(u8, u32, bool)>,
    gain_par: Vec<(u8, bool)>,
    packs: Vec<(usize, usize, bool)>,
    rounds: Vec<Vec<String>>,
    polls: Vec<usize>,
    snap_before: Vec<Snap>,
    snap_after: Vec<Snap>,
}
impl RunOut {
    /// observed iteration order: visited keys, then the key reported unknown (if any)
    fn order_prefix(&self) -> Vec<u8> {
        let mut o: Vec<u8> = self.visited.iter().map(|v| v.0).collect();
        if let Some(k) = self.result.strip_prefix("err:unknown:") {
            if let Ok(k) = k.parse::<u8>() {
                o.push(k);
            }
        }
        o
    }
    /// `-` nothing packed, `0`/`1` every `pack` on the calling thread / on a pool thread, `?` both
    fn final_parallel(&self) -> &'static str {
        match (self.packs.iter().any(|p| p.2), self.packs.iter().any(|p| !p.2)) {
            (false, false) => "-",
            (true, false) => "1",
            (false, true) => "0",
            (true, true) => "?",
        }
    }
    fn polls_token(&self) -> String {
        let n = self.polls.len();
        join(&self.polls.iter().enumerate().map(|(i, p)| if self.result == "err:confirm" && i + 1 == n { "*".to_string() } else { p.to_string() }).collect::<Vec<_>>(), ",")
    }
    fn answers(&self) -> [String; 6] {
        [
            format!("R {}", self.result),
            format!("E {}>{}", bits(&self.before), bits(&self.after)),
            format!("V {}", join(&self.visited.iter().map(|v| v.0).collect::<Vec<_>>(), ",")),
            format!("F {}", join(&self.rounds.iter().map(|r| if r.is_empty() { ".".to_string() } else { r.join(" ") }).collect::<Vec<_>>(), " | ")),
            format!("O {}", join(&self.snap_after.iter().map(|s| s.obs()).collect::<Vec<_>>(), " ")),
            format!("P {} final={} polls={}", join(&self.visited.iter().map(|v| format!("{}:{}", v.0, v.2 as u8)).collect::<Vec<_>>(), ","), self.final_parallel(), self.polls_token()),
        ]
    }
}

fn canon_err(e: &AUTDError) -> String {
    match e {
        AUTDError::UnkownKey(k) => format!("err:unknown:{k}"),
        AUTDError::UnusedKey(ks) => {
            let mut v: Vec<u32> = ks.split(", ").filter_map(|s| s.parse().ok()).collect();
            v.sort();
            format!("err:unused:{}", join(&v, ","))
        }
        AUTDError::Driver(d) => canon_derr(d),
        e => format!("err:other:{}", format!("{e:?}").replace(' ', "_")),
    }
}
fn canon_derr(e: &AUTDDriverError) -> String {
    match e {
        AUTDDriverError::Gain(_) | AUTDDriverError::Modulation(_) => {
            let s = format!("{e:?}");
            let id = s.split("probe:").nth(1).and_then(|t| t.split(':').next()).unwrap_or("?").to_string();
            format!("err:gen:{id}")
        }
        AUTDDriverError::ModulationSizeOutOfRange(_) => "err:pack".into(),
        AUTDDriverError::ConfirmResponseFailed => "err:confirm".into(),
        AUTDDriverError::Link(l) => if format!("{l:?}").contains("watchdog") { "err:livelock".into() } else { "err:link".into() },
        e => format!("err:other:{}", format!("{e:?}").replace(' ', "_")),
    }
}

fn sender_option<S: Default + std::fmt::Debug>(pm: PM, to: Option<u32>) -> SenderOption<S> {
    SenderOption {
        send_interval: Duration::ZERO,
        receive_interval: Duration::ZERO,
        timeout: to.map(|t| Duration::from_millis(t as u64)),
        parallel: pm.mode(),
        sleeper: S::default(),
    }
}

thread_local! {
    static RT: tokio::runtime::Runtime = tokio::runtime::Builder::new_current_thread().enable_time().build().unwrap();
}

type AController = autd3::r#async::controller::Controller<FaultLink>;
enum Ctl {
    Sync(Controller<FaultLink>),
    Async(AController),
}
impl Ctl {
    fn open(n: usize, is_async: bool) -> Ctl {
        if is_async {
            Ctl::Async(RT.with(|rt| rt.block_on(AController::open((0..n).map(|_| AUTD3::default()), FaultLink::new()))).expect("open"))
        } else {
            Ctl::Sync(Controller::open((0..n).map(|_| AUTD3::default()), FaultLink::new()).expect("open"))
        }
    }
    fn geometry(&self) -> &Geometry {
        match self {
            Ctl::Sync(a) => a.geometry(),
            Ctl::Async(a) => a.geometry(),
        }
    }
    fn geometry_mut(&mut self) -> &mut Geometry {
        match self {
            Ctl::Sync(a) => a.geometry_mut(),
            Ctl::Async(a) => a.geometry_mut(),
        }
    }
    fn link(&self) -> &FaultLink {
        match self {
            Ctl::Sync(a) => a.link(),
            Ctl::Async(a) => a.link(),
        }
    }
    fn link_mut(&mut self) -> &mut FaultLink {
        match self {
            Ctl::Sync(a) => a.link_mut(),
            Ctl::Async(a) => a.link_mut(),
        }
    }
    fn flags(&self) -> Vec<bool> {
        self.geometry().iter().map(|d| d.enable).collect()
    }
    fn snaps(&self) -> Vec<Snap> {
        self.link().cpus().iter().map(Snap::take).collect()
    }
    /// closed link: `Drop` returns before it sends anything (or looks for a runtime)
    fn close(mut self) {
        let _ = Link::close(self.link_mut());
    }
    /// one step (enable mask, then `group_send` / plain `send` under the step's link fault); each call
    /// into the crates is its own `block_on`, so that a panic is caught in the async case like in the sync one
    fn step(&mut self, c: &Case, log: &VisitLog) -> String {
        use autd3::r#async::controller::AsyncSleeper;
        let n = c.n();
        for i in 0..n {
            self.geometry_mut()[i].enable = c.en[i];
        }
        *log.lock().unwrap() = Logs::default();
        let map: HashMap<u8, BoxedDatagram> = c.map.iter().map(|(k, d)| (*k, d.build(*k, log))).collect();
        let plain = c.plain.map(|d| d.build(0, log));
        let km = c.km.clone();
        let key_map = move |dev: &Device| km[dev.idx()];
        let (pm, to, ctl_api) = (c.pm_eff(), c.to_eff(), c.api.is_ctl());
        self.link_mut().arm(c.fault);
        let r: Result<Result<(), String>, String> = match self {
            Ctl::Sync(autd) => guarded(|| match plain {
                Some(d) => autd.sender(sender_option::<SpinSleeper>(pm, to)).send(d).map_err(|e| canon_derr(&e)),
                None if ctl_api => autd.group_send(key_map, map).map_err(|e| canon_err(&e)),
                None => autd.sender(sender_option::<SpinSleeper>(pm, to)).group_send(key_map, map).map_err(|e| canon_err(&e)),
            }),
            Ctl::Async(autd) => guarded(|| {
                RT.with(|rt| {
                    rt.block_on(async {
                        match plain {
                            Some(d) => autd.sender(sender_option::<AsyncSleeper>(pm, to)).send(d).await.map_err(|e| canon_derr(&e)),
                            None if ctl_api => autd.group_send(key_map, map).await.map_err(|e| canon_err(&e)),
                            None => autd.sender(sender_option::<AsyncSleeper>(pm, to)).group_send(key_map, map).await.map_err(|e| canon_err(&e)),
                        }
                    })
                })
            }),
        };
        self.link_mut().disarm();
        match r {
            Ok(Ok(())) => "ok".to_string(),
            Ok(Err(e)) => e,
            Err(_) => "panic".to_string(),
        }
    }
}

/// one execution of the case (history, then the observed call) on a fresh controller
fn run_once(c: &Case) -> RunOut {
    let n = c.n();
    let log: VisitLog = Default::default();
    let mut ctl = Ctl::open(n, c.api.is_async());
    let mut hist_results = vec![];
    for h in &c.hist {
        hist_results.push(ctl.step(h, &log));
    }
    for i in 0..n {
        ctl.geometry_mut()[i].enable = c.en[i];
    }
    let before = ctl.flags();
    let snap_before = ctl.snaps();
    let result = ctl.step(c, &log);
    let after = ctl.flags();
    let rounds = ctl.link().rounds.clone();
    let polls = ctl.link().polls.clone();
    let snap_after = ctl.snaps();
    ctl.close();
    let l = log.lock().unwrap().clone();
    RunOut { result, hist_results, before, after, visited: l.gens, gain_par: l.gain_par, packs: l.packs, rounds, polls, snap_before, snap_after }
}

type RefKey = (String, Vec<bool>, DgSpec);
/// reference: fresh controller, the same history, then enabled set = `mask` and a plain `send` of the
/// datagram (serial, 5 ms sender timeout, no link fault); snapshot of all devices
fn reference(cache: &mut HashMap<RefKey, Option<Vec<Snap>>>, c: &Case, mask: &[bool], d: DgSpec) -> Option<Vec<Snap>> {
    let key = (c.hist_sig(), mask.to_vec(), d);
    if let Some(r) = cache.get(&key) {
        return r.clone();
    }
    let log: VisitLog = Default::default();
    let mut ctl = Ctl::open(mask.len(), false);
    for h in &c.hist {
        let mut h = h.clone();
        h.api = if h.api.is_ctl() { Api::SyncCtl } else { Api::Sync };
        ctl.step(&h, &log);
    }
    let step = Case { en: mask.to_vec(), km: vec![None; mask.len()], map: vec![], fault: Fault::None, api: Api::Sync, pm: PM::Off, to: Some(5), plain: Some(d), hist: vec![] };
    let out = if ctl.step(&step, &log) == "ok" { Some(ctl.snaps()) } else { None };
    ctl.close();
    cache.insert(key, out.clone());
    out
}

struct Ctx {
    out: Out,
    sampled: BTreeSet<String>,
    refs: HashMap<RefKey, Option<Vec<Snap>>>,
    /// the same case without link fault: (result, rounds, observations)
    nofault: HashMap<String, (String, Vec<Vec<String>>, Vec<String>)>,
    cap_hits: u32,
    runs: u64,
    start: std::time::Instant,
    budget: Duration,
}

/// the property itself, stated on the implementation's run
fn oracle(ctx: &mut Ctx, c: &Case, order: &[u8], r: &RunOut) {
    let n = c.n();
    let id = format!("{} order={}", c.sig(), join(order, ",")).replace(' ', ";");
    let replay = || {
        let mut v: Vec<String> = c.hist.iter().enumerate().map(|(j, h)| h.line(&h.used_keys(), j > 0)).collect();
        v.push(c.line(order, !c.hist.is_empty()));
        if !c.hist.is_empty() {
            v.push(format!("history on the same controller: {} -> results {:?}", c.hist_sig(), r.hist_results));
        }
        v.push(format!("devices={n} enabled-before={} key_map(idx)={} datagrams={{{}}} link-fault={} api={} sender-timeout={} parallel-mode={} observed-iteration-order={}", bits(&c.en), c.km_token(), c.map_token(), c.fault.token(), c.api.token(), c.to_token(), c.pm_eff().token(), join(order, ",")));
        v.push(format!("result={} enable-after={} polls-per-send={:?}", r.result, bits(&r.after), r.polls));
        v
    };
    let viol = |ctx: &mut Ctx, kind: &str, what: String| {
        ctx.out.violation(format!("group:{kind}:{id}"), what, replay());
    };
    if r.result == "panic" {
        viol(ctx, "panic", "group_send panicked".into());
    }
    if r.result == "err:livelock" {
        viol(ctx, "livelock", "group_send kept transmitting (more than 400 rounds; stopped by the link watchdog)".into());
    }
    // (1) enable flags restored on every exit
    if r.after != r.before {
        viol(ctx, "enable", format!("group_send returned `{}` and left Device::enable = {} (was {})", r.result, bits(&r.after), bits(&r.before)));
    }
    // (4) key errors
    let used = c.used_keys();
    let missing: Vec<u8> = used.iter().copied().filter(|k| c.dg(*k).is_none()).collect();
    let extra: Vec<u8> = {
        let mut v: Vec<u8> = c.map.iter().map(|(k, _)| *k).filter(|k| !used.contains(k)).collect();
        v.sort();
        v
    };
    let any_genfail = c.map.iter().any(|(k, d)| d.fail && used.contains(k));
    if let Some(k) = r.result.strip_prefix("err:unknown:") {
        if !missing.iter().any(|m| m.to_string() == k) {
            viol(ctx, "keys", format!("UnknownKey({k}) but the keys without a datagram are {missing:?}"));
        }
    } else if !missing.is_empty() && !any_genfail {
        viol(ctx, "keys", format!("keys {missing:?} have no datagram but the result is `{}`", r.result));
    } else if !missing.is_empty() && !r.result.starts_with("err:") {
        viol(ctx, "keys", format!("keys {missing:?} have no datagram but the result is `{}`", r.result));
    }
    if let Some(ks) = r.result.strip_prefix("err:unused:") {
        if missing.is_empty() && ks != join(&extra, ",") || !missing.is_empty() || extra.is_empty() {
            viol(ctx, "keys", format!("UnusedKey({ks}) but the datagrams without a device are {extra:?}, keys without a datagram {missing:?}"));
        }
    } else if missing.is_empty() && !extra.is_empty() && !any_genfail {
        viol(ctx, "keys", format!("datagrams {extra:?} are mapped to no device but the result is `{}`", r.result));
    }
    let key_error = r.result.starts_with("err:unknown") || r.result.starts_with("err:unused") || r.result.starts_with("err:gen");
    if key_error && r.rounds.iter().any(|x| !x.is_empty()) {
        viol(ctx, "keys", format!("`{}` but frames were transmitted: {:?}", r.result, r.rounds));
    }
    // (3) unmapped and disabled devices are untouched — on every exit, whatever happened on the controller before
    for i in 0..n {
        let mapped = c.en[i] && c.km[i].is_some();
        if !mapped || key_error {
            let got: Vec<&String> = r.rounds.iter().flatten().filter(|f| f.starts_with(&format!("{i}:"))).collect();
            let first_only = r.rounds.first().map(|x| x.iter().filter(|f| f.starts_with(&format!("{i}:"))).count()).unwrap_or(0) == 1 && got.len() == 1;
            let unsent = c.hist.iter().find(|h| h.may_leave_unsent_frames());
            if let (Some(h), true, false) = (unsent, first_only, key_error) {
                // one root cause, one key: a frame packed by an earlier, failed call is still in the tx slot
                let cause = if matches!(h.fault, Fault::Send(_)) { "link-send-failure" } else { "pack-failure" };
                ctx.out.violation(
                    format!("group:unsent-frame-delivered-later:{cause}"),
                    format!("an earlier call on the controller failed ({}) after it had packed a frame for device {i} that was never transmitted; the observed group_send does not address device {i} ({}), yet its first transmission delivers that frame: {} -> {} (frame {})", if cause == "pack-failure" { "pack error of another device" } else { "Link::send error" }, if c.en[i] { "mapped to no key" } else { "disabled" }, r.snap_before[i].obs(), r.snap_after[i].obs(), got[0]),
                    replay(),
                );
                continue;
            }
            if r.snap_after[i] != r.snap_before[i] {
                viol(ctx, "untouched", format!("device {i} ({}) changed state: {} -> {} (ack {} -> {})", if mapped { "mapped, but the call failed before transmission" } else if c.en[i] { "mapped to no key" } else { "disabled" }, r.snap_before[i].obs(), r.snap_after[i].obs(), r.snap_before[i].ack, r.snap_after[i].ack));
            }
            if r.rounds.iter().flatten().any(|f| f.starts_with(&format!("{i}:"))) {
                viol(ctx, "untouched", format!("device {i} was sent a frame: {:?}", r.rounds));
            }
        }
    }
    // (2) on Ok: state of every mapped device = plain send of its datagram (group enabled / alone), after the same history
    if r.result == "ok" {
        for i in 0..n {
            if let (true, Some(k)) = (c.en[i], c.km[i]) {
                let Some(d) = c.dg(k) else { continue };
                let gm = c.group_mask(k);
                match reference(&mut ctx.refs, c, &gm, d) {
                    Some(rf) => {
                        if rf[i].no_ack() != r.snap_after[i].no_ack() {
                            viol(ctx, "equiv", format!("device {i} (key {k}, datagram {}): state {} differs from the state {} after sending the datagram to its group alone", d.token(), r.snap_after[i].obs(), rf[i].obs()));
                        }
                    }
                    None => viol(ctx, "equiv", format!("group_send is Ok but sending {} to group {} alone fails", d.token(), bits(&gm))),
                }
                // a real geometry-wide gain legitimately depends on the other devices of the group
                if d.kind != Kind::Holo {
                    let alone: Vec<bool> = (0..n).map(|j| j == i).collect();
                    if let Some(rf) = reference(&mut ctx.refs, c, &alone, d) {
                        if rf[i].core() != r.snap_after[i].core() {
                            viol(ctx, "equiv", format!("device {i} (key {k}, datagram {}): state {} differs from the state {} after sending the datagram to that device alone", d.token(), r.snap_after[i].obs(), rf[i].obs()));
                        }
                    }
                }
            }
        }
    }
    // every generator that was built saw exactly its group enabled
    for (k, m, _) in &r.visited {
        let gm = c.group_mask(*k).iter().enumerate().fold(0u32, |m, (i, &b)| if b { m | 1 << i } else { m });
        if *m != gm {
            viol(ctx, "equiv", format!("the generator of key {k} saw enabled set {m:#b}, its group is {gm:#b}"));
        }
    }
    // on every exit: a mapped device has received only frames of its own datagram, in order
    for i in 0..n {
        if let (true, Some(k)) = (c.en[i], c.km[i]) {
            let mine: Vec<&String> = r.rounds.iter().flatten().filter(|f| f.starts_with(&format!("{i}:"))).collect();
            if let Some(d) = c.dg(k) {
                let ok = |f: &String| match d.kind {
                    // gain frames carry (id, mask, device + 1)
                    Kind::Gain => f.starts_with(&format!("{i}:g{}.", d.id)) && f.ends_with(&format!(".{}", i + 1)),
                    Kind::Mod | Kind::Tuple => f.starts_with(&format!("{i}:m{}#", d.id)) || (d.kind == Kind::Tuple && f.starts_with(&format!("{i}:g{}.", d.tuple_gain_id())) && f.ends_with(&format!(".{}", i + 1))),
                    Kind::Holo => f.starts_with(&format!("{i}:g")),
                };
                if mine.iter().any(|f| !ok(f)) {
                    viol(ctx, "equiv", format!("device {i} (key {k}, datagram {}) was sent {:?}", d.token(), mine));
                }
            } else if !mine.is_empty() {
                viol(ctx, "untouched", format!("device {i} (key {k} has no datagram) was sent {:?}", mine));
            }
        }
    }
    // an operation is packed for (and into the slot of) the device it was generated for
    if let Some((g, p, _)) = r.packs.iter().find(|(g, p, _)| g != p) {
        viol(ctx, "slot", format!("the operation generated for device {g} was packed into the frame of device {p}"));
    }
    // ---- `datagram_option` aggregation and the `parallel` arguments (oracle; also part of the `opt` line) ----
    let pm = c.pm_eff();
    for (k, _, par) in &r.visited {
        if let Some(d) = c.dg(*k) {
            let size = c.group_mask(*k).iter().filter(|b| **b).count();
            let want = pm.is_parallel(size, d.option().1);
            if *par != want {
                viol(ctx, "parallel", format!("the generator of key {k} (group of {size} devices, parallel_threshold {}, mode {}) was built with parallel = {par}", if d.option().1 == THR_MAX { "usize::MAX".to_string() } else { d.option().1.to_string() }, pm.token()));
            }
        }
    }
    for (k, par) in &r.gain_par {
        if r.visited.iter().find(|v| v.0 == *k).map(|v| v.2) != Some(*par) {
            viol(ctx, "parallel", format!("Gain::init_full of key {k} was told parallel = {par}, operation_generator something else"));
        }
    }
    if !r.packs.is_empty() {
        let thr = c.map.iter().map(|(_, d)| d.option().1).min().unwrap_or(THR_MAX);
        let enabled = c.en.iter().filter(|b| **b).count();
        let want = if pm.is_parallel(enabled, thr) { "1" } else { "0" };
        if r.final_parallel() != want {
            viol(ctx, "parallel", format!("{enabled} enabled devices, smallest parallel_threshold {}, mode {}: the frames must be packed {}, but pack ran {}", if thr == THR_MAX { "usize::MAX".to_string() } else { thr.to_string() }, pm.token(), if want == "1" { "on the pool" } else { "serially" }, match r.final_parallel() { "1" => "on the pool", "0" => "on the calling thread", _ => "on both" }));
        }
    }
    // acknowledgement handling: polls per transmitted frame set under withheld acknowledgements
    if c.fault.withholds() && c.healthy() {
        let eff = c.eff_timeout();
        let mut nf = c.clone();
        nf.fault = Fault::None;
        let nfk = nf.sig();
        if !ctx.nofault.contains_key(&nfk) {
            let x = run_once(&nf);
            ctx.runs += 1;
            ctx.nofault.insert(nfk.clone(), (x.result.clone(), x.rounds.clone(), x.snap_after.iter().map(|s| s.obs()).collect()));
        }
        let (nres, nrounds, nobs) = ctx.nofault[&nfk].clone();
        let obs: Vec<String> = r.snap_after.iter().map(|s| s.obs()).collect();
        let dgs = c.map_token();
        match c.fault {
            Fault::Delay(k) => {
                if (r.result.clone(), r.rounds.clone(), obs) != (nres.clone(), nrounds.clone(), nobs.clone()) {
                    viol(ctx, "timeout", format!("acknowledgements arrive with the {}th receive; effective timeout {eff} ms ({dgs}): result {} frames {:?}, without the delay: {nres} {nrounds:?}", k + 1, r.result, r.rounds));
                }
                // a transmission that carries no new frame is acknowledged already
                let want: Vec<usize> = r.rounds.iter().map(|x| if eff == 0 || x.is_empty() { 1 } else { k + 1 }).collect();
                if r.polls != want {
                    viol(ctx, "timeout", format!("effective timeout {eff} ms = max over {dgs} (sender: {}), acknowledgements arrive with receive #{}: the frame sets must be followed by {want:?} receive(s) before the next one goes out, observed {:?}", c.to_token(), k + 1, r.polls));
                }
            }
            Fault::NoAck(s0) => {
                // the first transmission from `s0` on that carries a new frame is the one never acknowledged
                let s = (s0..nrounds.len()).find(|j| !nrounds[*j].is_empty()).unwrap_or(nrounds.len());
                if eff == 0 || nrounds.len() <= s {
                    if (r.result.clone(), r.rounds.clone(), obs) != (nres.clone(), nrounds.clone(), nobs.clone()) {
                        viol(ctx, "timeout", format!("effective timeout {eff} ms ({dgs}): acknowledgements must not be waited for, but result {} frames {:?}; with acknowledgements: {nres} {nrounds:?}", r.result, r.rounds));
                    }
                } else if r.result != "err:confirm" || r.rounds[..] != nrounds[..=s] {
                    viol(ctx, "timeout", format!("effective timeout {eff} ms = max over {dgs} (sender: {}) and frame set #{s} is never acknowledged: expected ConfirmResponseFailed after {} transmissions, got {} after {:?}", c.to_token(), s + 1, r.result, r.rounds));
                }
            }
            _ => {}
        }
    }
}

/// all orders in which `group_send` may visit the keys, reduced to what can be observed: the
/// sequence up to and including the first key that stops the loop
fn expected_classes(c: &Case) -> BTreeSet<Vec<u8>> {
    fn perms(v: &[u8]) -> Vec<Vec<u8>> {
        if v.len() <= 1 {
            return vec![v.to_vec()];
        }
        let mut out = vec![];
        for i in 0..v.len() {
            let mut rest = v.to_vec();
            let x = rest.remove(i);
            for mut p in perms(&rest) {
                p.insert(0, x);
                out.push(p);
            }
        }
        out
    }
    perms(&c.used_keys())
        .into_iter()
        .map(|p| {
            let mut pre = vec![];
            for k in p {
                pre.push(k);
                match c.dg(k) {
                    None => break,
                    Some(d) if d.fail => break,
                    _ => {}
                }
            }
            pre
        })
        .collect()
}

fn run_case(ctx: &mut Ctx, c: &Case, tag: &str) {
    // never reached on an implementation that behaves (the whole stream takes seconds); a broken one
    // (violations already recorded, order classes that never show up, timeouts) must not stall the check
    if ctx.start.elapsed() > ctx.budget {
        ctx.out.count("cases-skipped-after-time-budget");
        return;
    }
    let expected = expected_classes(c);
    let used = c.used_keys();
    let cap = if ctx.cap_hits > 10 || ctx.out.violations.len() >= 50 { 8 } else if used.len() >= 3 { 150 } else { 60 };
    let mut seen: BTreeMap<Vec<u8>, RunOut> = BTreeMap::new();
    let mut attempts = 0;
    while attempts < cap {
        attempts += 1;
        ctx.runs += 1;
        let r = run_once(c);
        let pre = r.order_prefix();
        if let Some(prev) = seen.get(&pre) {
            if prev.answers() != r.answers() || prev.hist_results != r.hist_results {
                ctx.out.violation(
                    format!("group:nondeterministic:{} order={}", c.sig(), join(&pre, ",")).replace(' ', ";"),
                    format!("two runs with the same iteration order differ: {:?} vs {:?}", prev.answers(), r.answers()),
                    vec![c.line(&pre, false)],
                );
            }
        } else {
            seen.insert(pre, r);
        }
        if expected.iter().all(|e| seen.contains_key(e)) {
            break;
        }
    }
    if !expected.iter().all(|e| seen.contains_key(e)) {
        ctx.cap_hits += 1;
        ctx.out.count(&format!("order-classes-not-all-seen:{tag}:{}", c.sig()));
    }
    ctx.out.count_n("order-classes", seen.len() as u64);
    let modelled = c.modelled();
    for (pre, r) in &seen {
        // full order handed to the model: the observed prefix, then the unvisited keys ascending
        let mut order = pre.clone();
        for k in &used {
            if !order.contains(k) {
                order.push(*k);
            }
        }
        let line = c.line(&order, !c.hist.is_empty());
        let a = r.answers();
        if modelled {
            // history steps: their result does not depend on the iteration order (by construction of
            // the histories); the model runs them with the keys ascending
            for (j, h) in c.hist.iter().enumerate() {
                ctx.out.line(&h.line(&h.used_keys(), j > 0), &format!("R {}", r.hist_results[j]));
            }
            ctx.out.line(&line, &a[0]);
            ctx.out.line("flags", &a[1]);
            ctx.out.line("visited", &a[2]);
            ctx.out.line("log", &a[3]);
            ctx.out.line("obs", &a[4]);
            ctx.out.line("opt", &a[5]);
        } else {
            ctx.out.count("oracle-only (not handed to the model: tuple / holo datagram, or a history that leaves unsent frames)");
        }
        // one written-out sample per generator (the first few generators)
        if ctx.sampled.insert(tag.split('-').next().unwrap_or(tag).to_string()) {
            ctx.out.sample(format!("[{tag}] {}{line} -> {}", c.hist_sig(), a.join(" / ")));
        }
        let trivial = used.is_empty() && c.map.is_empty() && c.hist.is_empty();
        ctx.out.case(if trivial { None } else { Some(fnv64(format!("{}{} {}", c.hist_sig(), line, tag).as_bytes())) });
        ctx.out.count(&format!("result:{}", r.result.split(':').take(2).collect::<Vec<_>>().join(":")));
        ctx.out.count(&format!("keys-used:{}", used.len()));
        ctx.out.count(&format!("devices:{}", c.n()));
        ctx.out.count(&format!("api:{}", c.api.token()));
        ctx.out.count(&format!("gen:{tag}"));
        if c.fault != Fault::None {
            ctx.out.count(&format!("fault:{}", c.fault.token()));
        }
        // the new input dimensions
        ctx.out.count(&format!("sender-timeout:{}", match c.to_eff() { None => "none (datagrams decide)", Some(0) => "0", Some(_) => ">0" }));
        ctx.out.count(&format!("parallel-mode:{}", c.pm_eff().token()));
        if c.map.iter().any(|(_, d)| d.opt.is_some()) {
            let ts: BTreeSet<u32> = c.map.iter().map(|(_, d)| d.option().0).collect();
            ctx.out.count(&format!("datagram-timeouts:{}", if ts.len() > 1 { if ts.contains(&0) { "mixed, one of them 0" } else { "mixed" } } else if ts.contains(&0) { "all 0" } else { "all equal, >0" }));
            ctx.out.count("explicit-datagram-option");
        }
        for (_, _, par) in &r.visited {
            ctx.out.count(&format!("generator-built-with-parallel:{par}"));
        }
        ctx.out.count(&format!("frames-packed:{}", match r.final_parallel() { "1" => "on the rayon pool", "0" => "serially", "-" => "nothing packed", _ => "both" }));
        if !c.hist.is_empty() {
            ctx.out.count(&format!("history-steps:{}", c.hist.len()));
            for (h, res) in c.hist.iter().zip(&r.hist_results) {
                ctx.out.count(&format!("history-step:{}:{}", if h.plain.is_some() { "send" } else { "group_send" }, res.split(':').take(2).collect::<Vec<_>>().join(":")));
            }
            if c.hist.iter().any(|h| h.en != c.en) {
                ctx.out.count("history:mask-changed-before-the-observed-call");
            }
        }
        for (_, d) in &c.map {
            ctx.out.count(&format!("datagram-kind:{:?}", d.kind));
        }
        if let Some(p) = pre.iter().position(|k| c.dg(*k).map(|d| d.fail).unwrap_or(true)) {
            ctx.out.count(&format!("loop-stops-at-position:{p}/{}", used.len()));
        }
        if r.rounds.len() > 1 {
            ctx.out.count("multi-round-transmissions");
        }
        if r.before.iter().any(|b| !b) {
            ctx.out.count("some-device-disabled-beforehand");
        }
        oracle(ctx, c, &order, r);
    }
}

// ------------------------------------------------------------------------------------------------
// generators

/// every key assignment of `n` devices to keys `0..nk` or none, in which the keys that occur are
/// numbered in order of first appearance (key names are interchangeable)
fn assignments(n: usize, nk: u8) -> Vec<Vec<Option<u8>>> {
    fn go(n: usize, nk: u8, cur: &mut Vec<Option<u8>>, next: u8, out: &mut Vec<Vec<Option<u8>>>) {
        if cur.len() == n {
            out.push(cur.clone());
            return;
        }
        cur.push(None);
        go(n, nk, cur, next, out);
        cur.pop();
        for k in 0..=next.min(nk - 1) {
            cur.push(Some(k));
            go(n, nk, cur, if k == next { next + 1 } else { next }, out);
            cur.pop();
        }
    }
    let mut out = vec![];
    go(n, nk, &mut vec![], 0, &mut out);
    out
}

fn masks(n: usize) -> Vec<Vec<bool>> {
    (0..1u32 << n).rev().map(|m| (0..n).map(|i| m >> i & 1 == 1).collect()).collect()
}

/// the standard datagram of key `k`: distinct ids, one multi-frame modulation among them
fn std_dg(k: u8) -> DgSpec {
    match k % 3 {
        0 => DgSpec::g(17 + k),
        1 => DgSpec::m(33 + k, 900),
        _ => DgSpec::g(65 + k),
    }
}

pub fn run(args: &Args) {
    let mut ctx = Ctx { out: Out::new(&args.out), sampled: BTreeSet::new(), refs: HashMap::new(), nofault: HashMap::new(), cap_hits: 0, runs: 0, start: std::time::Instant::now(), budget: Duration::from_secs(if args.tier == "thorough" { 600 } else { 90 }) };
    let thorough = args.tier == "thorough";
    let mut rng = Rng::new(args.seed ^ 0xC13);
    let base = |en: Vec<bool>, km: Vec<Option<u8>>, map: Vec<(u8, DgSpec)>| Case { en, km, map, fault: Fault::None, api: Api::Sync, pm: PM::Off, to: Some(5), plain: None, hist: vec![] };
    let apis = [Api::Sync, Api::Async];

    // ---- corpus first: DESIGN §6 F11 (key without datagram; generator error) on both copies ----
    for api in [Api::Sync, Api::Async, Api::SyncCtl, Api::AsyncCtl] {
        let mut c = base(vec![true; 3], vec![Some(0), Some(1), Some(2)], vec![(0, DgSpec::g(17)), (2, DgSpec::g(67))]);
        c.api = api;
        run_case(&mut ctx, &c, "corpus-F11-unknown-key");
        let mut c = base(vec![true; 3], vec![Some(0), Some(1), Some(2)], vec![(0, DgSpec::g(17)), (1, DgSpec::g(40).failing()), (2, DgSpec::m(35, 300))]);
        c.api = api;
        run_case(&mut ctx, &c, "corpus-F11-generator-error");
        let mut c = base(vec![true, true], vec![Some(0), Some(1)], vec![(0, DgSpec::g(17)), (1, DgSpec::m(34, 10).failing())]);
        c.api = api;
        run_case(&mut ctx, &c, "corpus-F11-generator-error");
        // the repository's own unit-test shapes
        let mut c = base(vec![true; 4], vec![Some(0), Some(1), None, Some(2)], vec![(0, DgSpec::g(17)), (1, DgSpec::m(0x80, 2)), (2, DgSpec::m(36, 1500))]);
        c.api = api;
        run_case(&mut ctx, &c, "corpus-repo-tests");
        let mut c = base(vec![true, true], vec![Some(0), Some(1)], vec![(0, DgSpec::g(1)), (1, DgSpec::g(2)), (2, DgSpec::g(3))]);
        c.api = api;
        run_case(&mut ctx, &c, "corpus-repo-tests");
        let mut c = base(vec![true], vec![Some(0)], vec![(0, DgSpec::g(9))]);
        c.api = api;
        c.fault = Fault::Send(0);
        run_case(&mut ctx, &c, "corpus-repo-tests");
    }
    // gap found by the coverage review (two-call history): a frame packed by a failed call stays in the tx slot
    for api in [Api::Sync, Api::Async] {
        for (en2, km2) in [(vec![true], vec![None]), (vec![false], vec![Some(0)])] {
            let mut h = base(vec![true], vec![Some(0)], vec![(0, DgSpec::g(17))]);
            h.fault = Fault::Send(0);
            h.api = api;
            let mut c = base(en2, km2, vec![]);
            c.api = api;
            c.hist = vec![h];
            run_case(&mut ctx, &c, "corpus-unsent-frame-delivered-later");
        }
        let mut h = base(vec![true; 2], vec![Some(0), Some(1)], vec![(0, DgSpec::g(17)), (1, DgSpec::m(61, 1))]);
        h.api = api;
        let mut c = base(vec![true; 2], vec![None, Some(0)], vec![(0, DgSpec::g(18))]);
        c.api = api;
        c.hist = vec![h];
        run_case(&mut ctx, &c, "corpus-unsent-frame-delivered-later");
    }
    // pack-time failures (modulation too short / too long: the latter fails after 106 frames went out)
    for api in apis {
        let mut c = base(vec![true; 3], vec![Some(0), Some(1), Some(0)], vec![(0, DgSpec::g(17)), (1, DgSpec::m(34, 1))]);
        c.api = api;
        run_case(&mut ctx, &c, "pack-error");
        let mut c = base(vec![true; 3], vec![Some(1), Some(0), Some(1)], vec![(0, DgSpec::m(34, 0)), (1, DgSpec::m(35, 700))]);
        c.api = api;
        run_case(&mut ctx, &c, "pack-error");
        let mut c = base(vec![true, false, true], vec![Some(0), Some(0), Some(1)], vec![(0, DgSpec::m(34, 65537)), (1, DgSpec::m(35, 300))]);
        c.api = api;
        run_case(&mut ctx, &c, "pack-error");
    }

    // ---- all assignments × all prior masks, matching datagram map, both copies ----
    for n in 1..=4usize {
        let asg = assignments(n, 3);
        for en in masks(n) {
            for km in &asg {
                let mut c = base(en.clone(), km.clone(), vec![]);
                c.map = c.used_keys().iter().map(|&k| (k, std_dg(k))).collect();
                if thorough || n <= 3 {
                    for api in apis {
                        c.api = api;
                        run_case(&mut ctx, &c, "assignments");
                    }
                } else {
                    c.api = *rng.pick(&apis);
                    run_case(&mut ctx, &c, "assignments");
                }
                // the rayon pack path must not change anything
                if rng.chance(1, if thorough { 4 } else { 16 }) {
                    c.api = *rng.pick(&apis);
                    c.pm = PM::On;
                    run_case(&mut ctx, &c, "assignments-parallel-pack");
                }
            }
        }
    }

    // ---- missing / extra keys; failing datagram at each key; link failure at each send ----
    // exhaustive over assignments × masks for n ≤ 3 (thorough: n ≤ 4); for n = 4 in the quick tier:
    // every assignment with all devices enabled, and a sample of the other masks
    for n in 1..=4usize {
        let asg = assignments(n, 3);
        for en in masks(n) {
            for km in &asg {
                let c0 = {
                    let mut c = base(en.clone(), km.clone(), vec![]);
                    c.map = c.used_keys().iter().map(|&k| (k, std_dg(k))).collect();
                    c
                };
                let used = c0.used_keys();
                let full = en.iter().all(|&b| b);
                if !(thorough || n <= 3 || full || rng.chance(1, 8)) {
                    continue;
                }
                // (a) each used key missing
                for &k in &used {
                    let mut c = c0.clone();
                    c.map.retain(|(kk, _)| *kk != k);
                    c.api = *rng.pick(&apis);
                    run_case(&mut ctx, &c, "missing-key");
                }
                // (b) extra keys (one, two), also together with a missing one
                {
                    let mut c = c0.clone();
                    c.map.push((7, DgSpec::g(99)));
                    c.api = *rng.pick(&apis);
                    run_case(&mut ctx, &c, "extra-key");
                    c.map.push((5, DgSpec::m(98, 40)));
                    c.api = *rng.pick(&apis);
                    run_case(&mut ctx, &c, "extra-key");
                    if let Some(&k) = used.first() {
                        c.map.retain(|(kk, _)| *kk != k);
                        run_case(&mut ctx, &c, "missing-and-extra");
                    }
                }
                // a datagram for a key that only disabled devices are mapped to is an extra key
                if !full {
                    let mut c = c0.clone();
                    let hidden: BTreeSet<u8> = (0..n).filter(|&i| !en[i]).filter_map(|i| km[i]).filter(|k| !used.contains(k)).collect();
                    if let Some(&k) = hidden.iter().next() {
                        c.map.push((k, std_dg(k)));
                        c.api = *rng.pick(&apis);
                        run_case(&mut ctx, &c, "key-of-disabled-device-only");
                    }
                }
                // (c) a datagram that fails when its generator is built, at each key, both kinds
                for &k in &used {
                    for kind in [Kind::Gain, Kind::Mod] {
                        let mut c = c0.clone();
                        for e in c.map.iter_mut() {
                            if e.0 == k {
                                e.1 = if kind == Kind::Gain { DgSpec::g(40 + k).failing() } else { DgSpec::m(50 + k, 300).failing() };
                            }
                        }
                        c.api = *rng.pick(&apis);
                        run_case(&mut ctx, &c, "generator-error");
                    }
                }
                // failing generator + another key missing (whichever the order visits first wins)
                if used.len() >= 2 {
                    let mut c = c0.clone();
                    c.map.retain(|(kk, _)| *kk != used[0]);
                    for e in c.map.iter_mut() {
                        if e.0 == used[1] {
                            e.1 = DgSpec::g(41).failing();
                        }
                    }
                    c.api = *rng.pick(&apis);
                    run_case(&mut ctx, &c, "generator-error-and-missing-key");
                }
                // (d) link failure at every send / receive of the transmission (900 samples = 3 frames)
                if !used.is_empty() {
                    let rounds = if used.contains(&1) { 3 } else { 1 };
                    for s in 0..=rounds {
                        for f in [Fault::Send(s), Fault::Recv(s)] {
                            let mut c = c0.clone();
                            c.fault = f;
                            c.api = *rng.pick(&apis);
                            run_case(&mut ctx, &c, "link-failure");
                        }
                    }
                }
                // (e) pack failure of one group
                if !used.is_empty() {
                    let mut c = c0.clone();
                    let k = *rng.pick(&used);
                    for e in c.map.iter_mut() {
                        if e.0 == k {
                            e.1 = DgSpec::m(60 + k, 1);
                        }
                    }
                    c.api = *rng.pick(&apis);
                    run_case(&mut ctx, &c, "pack-error");
                }
            }
        }
    }

    // ---- random: free key names (not first-appearance order), random datagram kinds and lengths, shortcut api, parallel ----
    let nrand = if thorough { 6000 } else { 600 };
    for _ in 0..nrand {
        // beyond the quantifier's four devices in the thorough tier
        let n = rng.range(1, if thorough { 6 } else { 4 }) as usize;
        let en: Vec<bool> = (0..n).map(|_| rng.chance(3, 4)).collect();
        let names: Vec<u8> = {
            let mut v = vec![0u8, 1, 2, 3, 4, 5, 6, 7, 8, 9];
            for i in (1..v.len()).rev() {
                v.swap(i, rng.below(i as u64 + 1) as usize);
            }
            v.truncate(3);
            v
        };
        let km: Vec<Option<u8>> = (0..n).map(|_| if rng.chance(1, 5) { None } else { Some(*rng.pick(&names)) }).collect();
        let mut c = base(en, km, vec![]);
        let lens = [2usize, 3, 253, 254, 255, 256, 871, 872, 873, 1489, 1490, 1491, 2000];
        let mut id = rng.range(1, 200) as u8;
        for k in c.used_keys() {
            if rng.chance(1, 12) {
                continue; // missing
            }
            id = id % 250 + 1;
            let mut d = if rng.chance(1, 2) { DgSpec::g(id) } else { DgSpec::m(id, *rng.pick(&lens)) };
            if rng.chance(1, 12) {
                d = d.failing();
            }
            c.map.push((k, d));
        }
        if rng.chance(1, 10) {
            let k = (0..10u8).find(|k| !names.contains(k)).unwrap();
            c.map.push((k, DgSpec::g(251)));
        }
        c.fault = match rng.below(6) {
            0 => Fault::Send(rng.below(4) as usize),
            1 => Fault::Recv(rng.below(4) as usize),
            _ => Fault::None,
        };
        let multi = c.map.iter().any(|(_, d)| d.kind == Kind::Mod && d.len > 254);
        c.api = match rng.below(8) {
            0 if !multi => Api::SyncCtl,
            1 if !multi => Api::AsyncCtl,
            x if x % 2 == 0 => Api::Sync,
            _ => Api::Async,
        };
        c.pm = if matches!(c.api, Api::Sync | Api::Async) && rng.chance(1, 4) && c.map.iter().all(|(_, d)| d.healthy()) { PM::On } else { PM::Off };
        run_case(&mut ctx, &c, "random");
    }

    // ---- `datagram_option` aggregation: timeouts under withheld acknowledgements, parallel thresholds ----
    // A positive timeout is 10 s where the acknowledgements do arrive (after k more receives) and 3 ms
    // where they never do, so nothing depends on how fast the machine is: what is observed is the number
    // of receives per transmitted frame set and Ok / ConfirmResponseFailed.
    const BIG: u32 = 10_000;
    let all_apis = [Api::Sync, Api::Async, Api::SyncCtl, Api::AsyncCtl];
    let pos_of = |f: Fault| if matches!(f, Fault::NoAck(_)) { 3u32 } else { BIG };
    for api in all_apis {
        for (t0, t1) in [(0u32, 0u32), (0, 1), (1, 0), (1, 1), (2, 1)] {
            for to in [None, Some(0u32), Some(1)] {
                if api.is_ctl() && to.is_some() {
                    continue;
                }
                for fault in [Fault::Delay(2), Fault::NoAck(0), Fault::NoAck(1), Fault::None] {
                    let pos = pos_of(fault);
                    let mut c = base(vec![true; 3], vec![Some(0), Some(1), Some(0)], vec![(0, DgSpec::g(17).with(t0 * pos, THR_MAX)), (1, DgSpec::m(34, 900).with(t1 * pos, THR_MAX))]);
                    c.api = api;
                    c.to = to.map(|t| t * pos);
                    c.fault = fault;
                    run_case(&mut ctx, &c, "option-timeouts");
                }
            }
        }
    }
    {
        let thrs = [0usize, 1, 2, 3, THR_MAX];
        for en in [vec![true; 3], vec![true, true, false], vec![true, false, true]] {
            for &p0 in &thrs {
                for &p1 in &thrs {
                    for (api, pm) in [(Api::Sync, PM::Auto), (Api::Async, PM::Auto), (Api::SyncCtl, PM::Auto), (Api::AsyncCtl, PM::Auto), (Api::Sync, PM::On), (Api::Async, PM::Off)] {
                        if !(thorough || en[2] || api == Api::Sync || rng.chance(1, 3)) {
                            continue;
                        }
                        let mut c = base(en.clone(), vec![Some(0), Some(0), Some(1)], vec![(0, DgSpec::g(21).with(5, p0)), (1, DgSpec::m(36, 300).with(5, p1))]);
                        if !en[2] {
                            c.map.truncate(1);
                        }
                        c.api = api;
                        c.pm = pm;
                        c.to = None;
                        run_case(&mut ctx, &c, "option-parallel-thresholds");
                    }
                }
            }
        }
    }
    for _ in 0..(if thorough { 4000 } else { 400 }) {
        let n = rng.range(1, 4) as usize;
        let en: Vec<bool> = (0..n).map(|_| rng.chance(4, 5)).collect();
        let km: Vec<Option<u8>> = (0..n).map(|_| if rng.chance(1, 6) { None } else { Some(rng.below(3) as u8) }).collect();
        let mut c = base(en, km, vec![]);
        c.fault = match rng.below(5) {
            0 => Fault::None,
            1 | 2 => Fault::Delay(rng.range(1, 3) as usize),
            _ => Fault::NoAck(rng.below(3) as usize),
        };
        let pos = pos_of(c.fault);
        for k in c.used_keys() {
            let d = match rng.below(3) {
                0 => DgSpec::g(100 + k),
                1 => DgSpec::m(110 + k, *rng.pick(&[2usize, 254, 255, 900])),
                _ => DgSpec::m(120 + k, 1500),
            };
            let t = *rng.pick(&[0, 0, pos, 2 * pos]);
            let p = *rng.pick(&[0usize, 1, 2, 3, 4, THR_MAX]);
            // one in four keeps the option the datagram declares itself (20 ms / 4, 200 ms / usize::MAX)
            c.map.push((k, if rng.chance(1, 4) && !matches!(c.fault, Fault::NoAck(_)) { d } else { d.with(t, p) }));
        }
        c.api = *rng.pick(&all_apis);
        c.pm = *rng.pick(&[PM::Auto, PM::Auto, PM::On, PM::Off]);
        c.to = *rng.pick(&[None, None, Some(0), Some(pos)]);
        run_case(&mut ctx, &c, "option-random");
    }

    // ---- histories: calls on the same controller before the observed one ----
    // Every history step has at most one cause of failure, so its outcome does not depend on the
    // iteration order. Steps that can leave a packed, never transmitted frame in a tx slot (link failure
    // at send, pack failure behind an already packed device) are judged by the oracle only.
    for n in 2..=3usize {
        let km1: Vec<Option<u8>> = (0..n).map(|i| Some((i % 2) as u8)).collect();
        let first = {
            let mut c = base(vec![true; n], km1.clone(), vec![]);
            c.map = c.used_keys().iter().map(|&k| (k, std_dg(k))).collect();
            c
        };
        let with = |f: &dyn Fn(&mut Case)| {
            let mut c = first.clone();
            f(&mut c);
            c
        };
        let plain = |d: DgSpec, fault: Fault, en: Vec<bool>| {
            let mut c = base(en, vec![None; n], vec![]);
            c.plain = Some(d);
            c.fault = fault;
            c
        };
        let mut half = vec![true; n];
        half[0] = false;
        let hists: Vec<(&str, Vec<Case>)> = vec![
            ("ok", vec![first.clone()]),
            ("ok-other-mask", vec![with(&|c| c.en = half.clone())]),
            ("recv-failure", vec![with(&|c| c.fault = Fault::Recv(0))]),
            ("unknown-key", vec![with(&|c| c.map.retain(|(k, _)| *k != 1))]),
            ("generator-error", vec![with(&|c| c.map[0].1 = DgSpec::g(44).failing())]),
            ("plain-send", vec![plain(DgSpec::g(77), Fault::None, vec![true; n])]),
            ("plain-send-masked", vec![plain(DgSpec::m(78, 400), Fault::None, half.clone())]),
            ("two-calls", vec![with(&|c| c.fault = Fault::Recv(1)), plain(DgSpec::g(79), Fault::None, vec![true; n])]),
            ("send-failure", vec![with(&|c| c.fault = Fault::Send(0))]),
            ("send-failure-second-frame", vec![with(&|c| c.fault = Fault::Send(1))]),
            ("pack-failure", vec![with(&|c| c.map[1].1 = DgSpec::m(61, 1))]),
            ("plain-send-failure", vec![plain(DgSpec::g(80), Fault::Send(0), vec![true; n])]),
            ("send-failure-then-ok", vec![with(&|c| c.fault = Fault::Send(0)), first.clone()]),
        ];
        for (name, hist) in &hists {
            for en in masks(n) {
                for km in assignments(n, 2) {
                    if !(thorough || n == 2 || en.iter().all(|b| *b) || rng.chance(1, 3)) {
                        continue;
                    }
                    let mut c = base(en.clone(), km.clone(), vec![]);
                    c.map = c.used_keys().iter().map(|&k| (k, std_dg(k + 3))).collect();
                    c.api = *rng.pick(&all_apis);
                    if rng.chance(1, 5) {
                        c.fault = if rng.chance(1, 2) { Fault::Send(rng.below(2) as usize) } else { Fault::Recv(rng.below(2) as usize) };
                    }
                    c.hist = hist.iter().map(|h| { let mut h = h.clone(); h.api = c.api; h }).collect();
                    run_case(&mut ctx, &c, &format!("history-{name}"));
                }
            }
        }
    }

    // ---- datagram kinds the model does not know (oracle only): tuples, a real geometry-wide gain ----
    for n in 1..=3usize {
        for en in masks(n) {
            for km in assignments(n, 3) {
                if !(thorough || n <= 2 || rng.chance(1, 3)) {
                    continue;
                }
                let mut c = base(en.clone(), km.clone(), vec![]);
                let used = c.used_keys();
                if used.is_empty() {
                    continue;
                }
                let special = *rng.pick(&used);
                for &k in &used {
                    let d = if k == special || rng.chance(1, 2) {
                        match rng.below(3) {
                            0 => DgSpec::t(130 + k, *rng.pick(&[2usize, 100, 254, 300, 900])),
                            1 => DgSpec::h(k + rng.below(20) as u8),
                            _ => DgSpec::t(140 + k, 50),
                        }
                    } else {
                        std_dg(k)
                    };
                    c.map.push((k, d));
                }
                c.api = *rng.pick(&all_apis);
                c.pm = *rng.pick(&[PM::Off, PM::Off, PM::Auto, PM::On]);
                match rng.below(8) {
                    0 => c.fault = Fault::Send(rng.below(3) as usize),
                    1 => c.fault = Fault::Recv(rng.below(3) as usize),
                    2 => {
                        if let Some(e) = c.map.iter_mut().find(|e| e.1.kind == Kind::Tuple) {
                            e.1 = e.1.failing();
                            c.pm = PM::Off;
                        }
                    }
                    _ => {}
                }
                run_case(&mut ctx, &c, "datagram-kinds");
            }
        }
    }

    let runs = ctx.runs;
    ctx.out.count_n("group_send-executions", runs);
    ctx.out.finish(
        "group",
        "a case is one execution of group_send for one (history of earlier calls on the controller, devices, prior enable mask, key assignment, datagram map incl. each datagram's timeout / parallel_threshold, link behaviour (failure, delayed or missing acknowledgements), api copy, sender timeout and parallel mode, observed key-iteration order); non-trivial = some enabled device is mapped, the datagram map is non-empty or there is a history; distinct by all of those. Handed to the model: everything but tuple / holo datagrams and histories that leave unsent frames (counter `oracle-only`); timeouts, thresholds and modes are model inputs (`opt` line), the thread on which pack runs and per-device gain content are observed on the implementation",
    );
}
