//! `group` stream (C13): the real `group_send` (sync and async copies) through a fault-injecting,
//! recording wrapper around the repository's `Audit` link, against the Lean model `Model/Group.lean`,
//! plus the implementation oracle:
//!   * the `enable` flag of every device after the call equals the flag before it (every exit path);
//!   * on `Ok`, every mapped device is in the state a plain `send` of its datagram puts it in
//!     (reference: fresh controller whose enabled set is the device's group; and, for the part of the
//!     state that does not depend on the enabled set, a fresh controller with that device alone);
//!   * on every exit a mapped device has received nothing but a prefix of its own frames;
//!   * devices mapped to no key, and disabled devices, are untouched (state, ack, no frame);
//!   * `UnknownKey`/`UnusedKey` exactly when keys and datagrams do not match, nothing transmitted.
//!
//! `HashMap` iteration order inside `group_send` cannot be chosen from outside; it is *observed*
//! (probe datagrams log the order in which their generators are built) and every case is re-run on
//! fresh controllers until every order class has been seen; lines are emitted sorted by order, so
//! the stream is the same on every run.
use crate::common::*;
use autd3::link::{Audit, AuditOption};
use autd3::prelude::*;
use autd3_core::derive::*;
use autd3_core::link::{AsyncLink, Link, LinkError};
use autd3_driver::datagram::{BoxedDatagram, IntoBoxedDatagram};
use autd3_driver::firmware::cpu::{RxMessage, TxMessage};
use autd3_firmware_emulator::CPUEmulator;
use std::collections::{BTreeMap, BTreeSet, HashMap};
use std::sync::{Arc, Mutex};
use std::time::Duration;

// ------------------------------------------------------------------------------------------------
// probe datagrams

/// (key, enabled-mask seen by the generator — `None` for a modulation, which never sees the geometry)
type VisitLog = Arc<Mutex<Vec<(u8, Option<u32>)>>>;

#[derive(Gain, Debug)]
struct ProbeGain {
    id: u8,
    fail: bool,
    key: u8,
    log: VisitLog,
}
struct ProbeGen(Drive);
struct ProbeCalc(Drive);
impl GainCalculator for ProbeCalc {
    fn calc(&self, _: &Transducer) -> Drive {
        self.0
    }
}
impl GainCalculatorGenerator for ProbeGen {
    type Calculator = ProbeCalc;
    fn generate(&mut self, _: &Device) -> ProbeCalc {
        ProbeCalc(self.0)
    }
}
impl Gain for ProbeGain {
    type G = ProbeGen;
    fn init(self) -> Result<ProbeGen, GainError> {
        Err(GainError::new("probe: init() without geometry"))
    }
    fn init_full(self, geometry: &Geometry, _: Option<&HashMap<usize, BitVec>>, _: bool) -> Result<ProbeGen, GainError> {
        let mask = geometry.iter().fold(0u32, |m, d| if d.enable { m | (1 << d.idx()) } else { m });
        self.log.lock().unwrap().push((self.key, Some(mask)));
        if self.fail {
            return Err(GainError::new(format!("probe:{}:", self.id)));
        }
        Ok(ProbeGen(Drive { phase: Phase(mask as u8), intensity: EmitIntensity(self.id) }))
    }
}

#[derive(Modulation, Debug)]
struct ProbeMod {
    id: u8,
    len: usize,
    fail: bool,
    key: u8,
    log: VisitLog,
}
impl Modulation for ProbeMod {
    fn calc(self) -> Result<Vec<u8>, ModulationError> {
        self.log.lock().unwrap().push((self.key, None));
        if self.fail {
            return Err(ModulationError::new(format!("probe:{}:", self.id)));
        }
        Ok(vec![self.id; self.len])
    }
    fn sampling_config(&self) -> SamplingConfig {
        SamplingConfig::FREQ_4K
    }
}

#[derive(Clone, Copy, PartialEq, Eq, Debug, Hash, PartialOrd, Ord)]
enum Kind {
    Gain,
    Mod,
}
#[derive(Clone, Copy, PartialEq, Eq, Debug, Hash, PartialOrd, Ord)]
struct DgSpec {
    kind: Kind,
    id: u8,
    len: usize,
    fail: bool,
}
impl DgSpec {
    const fn g(id: u8) -> Self {
        DgSpec { kind: Kind::Gain, id, len: 0, fail: false }
    }
    const fn m(id: u8, len: usize) -> Self {
        DgSpec { kind: Kind::Mod, id, len, fail: false }
    }
    const fn failing(mut self) -> Self {
        self.fail = true;
        self
    }
    fn token(&self) -> String {
        let f = if self.fail { "!" } else { "" };
        match self.kind {
            Kind::Gain => format!("g{}{f}", self.id),
            Kind::Mod => format!("m{}.{}{f}", self.id, self.len),
        }
    }
    fn build(&self, key: u8, log: &VisitLog) -> BoxedDatagram {
        match self.kind {
            Kind::Gain => ProbeGain { id: self.id, fail: self.fail, key, log: log.clone() }.into_boxed(),
            Kind::Mod => ProbeMod { id: self.id, len: self.len, fail: self.fail, key, log: log.clone() }.into_boxed(),
        }
    }
    /// the datagram can neither fail when its generator is built nor when it is packed
    fn healthy(&self) -> bool {
        !self.fail && (self.kind == Kind::Gain || (2..=65536).contains(&self.len))
    }
}

// ------------------------------------------------------------------------------------------------
// the link: the repository's Audit link + fault injection + a record of what was transmitted

#[derive(Clone, Copy, PartialEq, Eq, Debug)]
enum Fault {
    None,
    /// the `s`-th `Link::send` of the call (0-based) returns `Err`
    Send(usize),
    /// the `Link::receive` that follows the `s`-th successful `send` returns `Err`
    Recv(usize),
}
impl Fault {
    fn token(&self) -> String {
        match self {
            Fault::None => "none".into(),
            Fault::Send(s) => format!("s{s}"),
            Fault::Recv(s) => format!("r{s}"),
        }
    }
}

struct FaultLink {
    inner: Audit,
    armed: bool,
    fault: Fault,
    sends: usize,
    recv_pending_fail: bool,
    last_ids: Vec<u8>,
    frames_of: Vec<usize>,
    /// per successful `send`: the devices whose frame is new (msg id changed) and what it carries
    rounds: Vec<Vec<String>>,
}
impl FaultLink {
    fn new() -> Self {
        FaultLink {
            inner: Audit::new(AuditOption::default()),
            armed: false,
            fault: Fault::None,
            sends: 0,
            recv_pending_fail: false,
            last_ids: vec![],
            frames_of: vec![],
            rounds: vec![],
        }
    }
    fn arm(&mut self, fault: Fault) {
        self.armed = true;
        self.fault = fault;
        self.sends = 0;
        self.recv_pending_fail = false;
        self.rounds.clear();
        self.frames_of.iter_mut().for_each(|c| *c = 0);
    }
    fn disarm(&mut self) {
        self.armed = false;
        self.fault = Fault::None;
        self.recv_pending_fail = false;
    }
    fn cpus(&self) -> &[CPUEmulator] {
        &self.inner
    }
    fn do_send(&mut self, tx: &[TxMessage]) -> Result<(), LinkError> {
        if self.last_ids.len() != tx.len() {
            self.last_ids = vec![0; tx.len()];
            self.frames_of = vec![0; tx.len()];
        }
        if self.armed {
            let s = self.sends;
            self.sends += 1;
            // watchdog: `send_impl` has no bound of its own; the longest legitimate transmission of
            // this stream takes 107 rounds
            if s > 400 {
                return Err(LinkError::new("watchdog"));
            }
            if self.fault == Fault::Send(s) {
                return Err(LinkError::new("fault"));
            }
            if self.fault == Fault::Recv(s) {
                self.recv_pending_fail = true;
            }
            let mut round = vec![];
            for (i, t) in tx.iter().enumerate() {
                if t.header.msg_id != self.last_ids[i] {
                    let p = t.payload();
                    let k = self.frames_of[i];
                    self.frames_of[i] += 1;
                    let what = match p[0] {
                        0x30 => format!("g{}.{}", p[5], p[4]),
                        0x10 => {
                            let begin = p[1] & 1 != 0;
                            let end = p[1] & 2 != 0;
                            let first = if begin { p[16] } else { p[4] };
                            format!("m{}#{}{}", first, k, if end { "e" } else { "" })
                        }
                        t => format!("x{t:02x}"),
                    };
                    round.push(format!("{i}:{what}"));
                }
            }
            self.rounds.push(round);
        }
        for (i, t) in tx.iter().enumerate() {
            self.last_ids[i] = t.header.msg_id;
        }
        <Audit as Link>::send(&mut self.inner, tx)
    }
    fn do_receive(&mut self, rx: &mut [RxMessage]) -> Result<(), LinkError> {
        if self.armed && self.recv_pending_fail {
            self.recv_pending_fail = false;
            return Err(LinkError::new("fault"));
        }
        <Audit as Link>::receive(&mut self.inner, rx)
    }
}
impl Link for FaultLink {
    fn open(&mut self, geometry: &Geometry) -> Result<(), LinkError> {
        <Audit as Link>::open(&mut self.inner, geometry)
    }
    fn close(&mut self) -> Result<(), LinkError> {
        <Audit as Link>::close(&mut self.inner)
    }
    fn send(&mut self, tx: &[TxMessage]) -> Result<(), LinkError> {
        self.do_send(tx)
    }
    fn receive(&mut self, rx: &mut [RxMessage]) -> Result<(), LinkError> {
        self.do_receive(rx)
    }
    fn is_open(&self) -> bool {
        <Audit as Link>::is_open(&self.inner)
    }
}
#[autd3_core::async_trait]
impl AsyncLink for FaultLink {
    async fn open(&mut self, geometry: &Geometry) -> Result<(), LinkError> {
        <Audit as Link>::open(&mut self.inner, geometry)
    }
    async fn close(&mut self) -> Result<(), LinkError> {
        <Audit as Link>::close(&mut self.inner)
    }
    async fn send(&mut self, tx: &[TxMessage]) -> Result<(), LinkError> {
        self.do_send(tx)
    }
    async fn receive(&mut self, rx: &mut [RxMessage]) -> Result<(), LinkError> {
        self.do_receive(rx)
    }
    fn is_open(&self) -> bool {
        <Audit as Link>::is_open(&self.inner)
    }
}

// ------------------------------------------------------------------------------------------------
// cases

#[derive(Clone, Copy, PartialEq, Eq, Debug)]
enum Api {
    /// `Controller::sender(opt).group_send` (sync copy)
    Sync,
    /// `Controller::group_send` shortcut (sync copy)
    SyncCtl,
    /// `r#async::Controller::sender(opt).group_send` on a current-thread tokio runtime
    Async,
    /// `r#async::Controller::group_send` shortcut
    AsyncCtl,
}
impl Api {
    fn token(&self) -> &'static str {
        match self {
            Api::Sync => "sync",
            Api::SyncCtl => "sync-ctl",
            Api::Async => "async",
            Api::AsyncCtl => "async-ctl",
        }
    }
    fn is_async(&self) -> bool {
        matches!(self, Api::Async | Api::AsyncCtl)
    }
}

#[derive(Clone, Debug)]
struct Case {
    en: Vec<bool>,
    km: Vec<Option<u8>>,
    map: Vec<(u8, DgSpec)>,
    fault: Fault,
    api: Api,
    parallel: bool,
}
fn bits(v: &[bool]) -> String {
    v.iter().map(|&b| if b { '1' } else { '0' }).collect()
}
fn join<T: ToString>(v: &[T], sep: &str) -> String {
    if v.is_empty() { "-".into() } else { v.iter().map(|x| x.to_string()).collect::<Vec<_>>().join(sep) }
}
impl Case {
    fn n(&self) -> usize {
        self.en.len()
    }
    fn km_token(&self) -> String {
        self.km.iter().map(|k| k.map(|k| (b'0' + k) as char).unwrap_or('-')).collect()
    }
    fn map_token(&self) -> String {
        join(&self.map.iter().map(|(k, d)| format!("{k}={}", d.token())).collect::<Vec<_>>(), ",")
    }
    /// everything but the iteration order
    fn sig(&self) -> String {
        format!(
            "n={} en={} km={} map={} fault={} api={}{}",
            self.n(),
            bits(&self.en),
            self.km_token(),
            self.map_token(),
            self.fault.token(),
            self.api.token(),
            if self.parallel { "+par" } else { "" }
        )
    }
    fn line(&self, order: &[u8]) -> String {
        format!(
            "gs n={} en={} km={} map={} order={} fault={} api={}",
            self.n(),
            bits(&self.en),
            self.km_token(),
            self.map_token(),
            join(order, ","),
            self.fault.token(),
            self.api.token()
        )
    }
    /// keys that some enabled device is mapped to, ascending
    fn used_keys(&self) -> Vec<u8> {
        let s: BTreeSet<u8> = (0..self.n()).filter(|&i| self.en[i]).filter_map(|i| self.km[i]).collect();
        s.into_iter().collect()
    }
    fn dg(&self, k: u8) -> Option<DgSpec> {
        self.map.iter().find(|(kk, _)| *kk == k).map(|(_, d)| *d)
    }
    fn group_mask(&self, k: u8) -> Vec<bool> {
        (0..self.n()).map(|i| self.en[i] && self.km[i] == Some(k)).collect()
    }
}

/// observable state of one device
#[derive(Clone, PartialEq, Eq, Debug)]
struct Snap {
    intensities: Vec<u8>,
    phases: Vec<u8>,
    gain_mode: bool,
    stm_cycle: usize,
    req_stm: u8,
    modulation: Vec<u8>,
    mod_div: u16,
    req_mod: u8,
    ack: u8,
}
impl Snap {
    fn take(cpu: &CPUEmulator) -> Snap {
        let f = cpu.fpga();
        let d = f.drives_at(Segment::S0, 0);
        Snap {
            intensities: d.iter().map(|x| x.intensity.0).collect(),
            phases: d.iter().map(|x| x.phase.0).collect(),
            gain_mode: f.is_stm_gain_mode(Segment::S0),
            stm_cycle: f.stm_cycle(Segment::S0),
            req_stm: f.req_stm_segment() as u8,
            modulation: f.modulation_buffer(Segment::S0),
            mod_div: f.modulation_freq_division(Segment::S0),
            req_mod: f.req_modulation_segment() as u8,
            ack: cpu.rx().ack(),
        }
    }
    /// the compact form compared with the model: `g<intensity>.<phase>/m<first sample>.<length>`
    fn obs(&self) -> String {
        let uni = |v: &[u8]| v.iter().all(|&x| x == v[0]);
        let q = if uni(&self.intensities) && uni(&self.phases) && uni(&self.modulation) { "" } else { "?" };
        format!("g{}.{}/m{}.{}{q}", self.intensities[0], self.phases[0], self.modulation[0], self.modulation.len())
    }
    /// the part of the state that does not depend on which other devices were enabled, ack aside
    fn core(&self) -> (Vec<u8>, bool, usize, u8, Vec<u8>, u16, u8) {
        (self.intensities.clone(), self.gain_mode, self.stm_cycle, self.req_stm, self.modulation.clone(), self.mod_div, self.req_mod)
    }
    fn no_ack(&self) -> Snap {
        Snap { ack: 0, ..self.clone() }
    }
}

struct RunOut {
    result: String,
    before: Vec<bool>,
    after: Vec<bool>,
    /// keys whose generator was built, in order, with the mask each saw
    visited: Vec<(u8, Option<u32>)>,
    rounds: Vec<Vec<String>>,
    snap_before: Vec<Snap>,
    snap_after: Vec<Snap>,
}
impl RunOut {
    /// observed iteration order: visited keys, then the key reported unknown (if any)
    fn order_prefix(&self) -> Vec<u8> {
        let mut o: Vec<u8> = self.visited.iter().map(|v| v.0).collect();
        if let Some(k) = self.result.strip_prefix("err:unknown:") {
            if let Ok(k) = k.parse::<u8>() {
                o.push(k);
            }
        }
        o
    }
    fn answers(&self) -> [String; 5] {
        [
            format!("R {}", self.result),
            format!("E {}>{}", bits(&self.before), bits(&self.after)),
            format!("V {}", join(&self.visited.iter().map(|v| v.0).collect::<Vec<_>>(), ",")),
            format!("F {}", join(&self.rounds.iter().map(|r| if r.is_empty() { ".".to_string() } else { r.join(" ") }).collect::<Vec<_>>(), " | ")),
            format!("O {}", join(&self.snap_after.iter().map(|s| s.obs()).collect::<Vec<_>>(), " ")),
        ]
    }
}

fn canon_err(e: &AUTDError) -> String {
    match e {
        AUTDError::UnkownKey(k) => format!("err:unknown:{k}"),
        AUTDError::UnusedKey(ks) => {
            let mut v: Vec<u32> = ks.split(", ").filter_map(|s| s.parse().ok()).collect();
            v.sort();
            format!("err:unused:{}", join(&v, ","))
        }
        AUTDError::Driver(AUTDDriverError::Gain(_)) | AUTDError::Driver(AUTDDriverError::Modulation(_)) => {
            let s = format!("{e:?}");
            let id = s.split("probe:").nth(1).and_then(|t| t.split(':').next()).unwrap_or("?").to_string();
            format!("err:gen:{id}")
        }
        AUTDError::Driver(AUTDDriverError::ModulationSizeOutOfRange(_)) => "err:pack".into(),
        AUTDError::Driver(AUTDDriverError::Link(l)) => if format!("{l:?}").contains("watchdog") { "err:livelock".into() } else { "err:link".into() },
        e => format!("err:other:{}", format!("{e:?}").replace(' ', "_")),
    }
}

fn sender_option<S: Default + std::fmt::Debug>(parallel: bool) -> SenderOption<S> {
    SenderOption {
        send_interval: Duration::ZERO,
        receive_interval: Duration::ZERO,
        // acknowledgements of the emulated devices arrive with the first receive; a short explicit
        // timeout only keeps a broken implementation from stalling the run
        timeout: Some(Duration::from_millis(5)),
        parallel: if parallel { ParallelMode::On } else { ParallelMode::Off },
        sleeper: S::default(),
    }
}

thread_local! {
    static RT: tokio::runtime::Runtime = tokio::runtime::Builder::new_current_thread().enable_time().build().unwrap();
}

/// one execution of the case on a fresh controller
fn run_once(c: &Case) -> RunOut {
    let n = c.n();
    let log: VisitLog = Default::default();
    let map: HashMap<u8, BoxedDatagram> = c.map.iter().map(|(k, d)| (*k, d.build(*k, &log))).collect();
    let km = c.km.clone();
    let key_map = move |dev: &Device| km[dev.idx()];
    let (result, before, after, rounds, snap_before, snap_after);
    if !c.api.is_async() {
        let mut autd = Controller::open((0..n).map(|_| AUTD3::default()), FaultLink::new()).expect("open");
        for i in 0..n {
            autd.geometry_mut()[i].enable = c.en[i];
        }
        before = autd.geometry().iter().map(|d| d.enable).collect::<Vec<_>>();
        snap_before = autd.link().cpus().iter().map(Snap::take).collect::<Vec<_>>();
        autd.link_mut().arm(c.fault);
        let r = guarded(|| match c.api {
            Api::Sync => autd.sender(sender_option::<SpinSleeper>(c.parallel)).group_send(key_map, map),
            _ => autd.group_send(key_map, map),
        });
        autd.link_mut().disarm();
        result = match r {
            Ok(Ok(())) => "ok".to_string(),
            Ok(Err(e)) => canon_err(&e),
            Err(_) => "panic".to_string(),
        };
        after = autd.geometry().iter().map(|d| d.enable).collect::<Vec<_>>();
        rounds = autd.link().rounds.clone();
        snap_after = autd.link().cpus().iter().map(Snap::take).collect::<Vec<_>>();
        let _ = Link::close(autd.link_mut());
    } else {
        use autd3::r#async::controller::{AsyncSleeper, Controller as AController};
        // each step is its own `block_on`, so that a panic inside `group_send` is caught like in the sync case
        let mut autd = RT.with(|rt| rt.block_on(AController::open((0..n).map(|_| AUTD3::default()), FaultLink::new()))).expect("open");
        for i in 0..n {
            autd.geometry_mut()[i].enable = c.en[i];
        }
        before = autd.geometry().iter().map(|d| d.enable).collect::<Vec<_>>();
        snap_before = autd.link().cpus().iter().map(Snap::take).collect::<Vec<_>>();
        autd.link_mut().arm(c.fault);
        let r = guarded(|| {
            RT.with(|rt| {
                rt.block_on(async {
                    match c.api {
                        Api::Async => autd.sender(sender_option::<AsyncSleeper>(c.parallel)).group_send(key_map, map).await,
                        _ => autd.group_send(key_map, map).await,
                    }
                })
            })
        });
        autd.link_mut().disarm();
        result = match r {
            Ok(Ok(())) => "ok".to_string(),
            Ok(Err(e)) => canon_err(&e),
            Err(_) => "panic".to_string(),
        };
        after = autd.geometry().iter().map(|d| d.enable).collect::<Vec<_>>();
        rounds = autd.link().rounds.clone();
        snap_after = autd.link().cpus().iter().map(Snap::take).collect::<Vec<_>>();
        // closed link: `Drop` returns before it looks for a runtime
        let _ = Link::close(autd.link_mut());
    }
    let visited = log.lock().unwrap().clone();
    RunOut { result, before, after, visited, rounds, snap_before, snap_after }
}

/// reference: fresh controller, enabled set = `mask`, plain `send` of the datagram; snapshot of all devices
fn reference(cache: &mut HashMap<(Vec<bool>, DgSpec), Option<Vec<Snap>>>, mask: &[bool], d: DgSpec) -> Option<Vec<Snap>> {
    if let Some(r) = cache.get(&(mask.to_vec(), d)) {
        return r.clone();
    }
    let n = mask.len();
    let log: VisitLog = Default::default();
    let mut autd = Controller::open((0..n).map(|_| AUTD3::default()), FaultLink::new()).expect("open");
    for i in 0..n {
        autd.geometry_mut()[i].enable = mask[i];
    }
    let r = guarded(|| autd.sender(sender_option::<SpinSleeper>(false)).send(d.build(0, &log)));
    let out = match r {
        Ok(Ok(())) => Some(autd.link().cpus().iter().map(Snap::take).collect::<Vec<_>>()),
        _ => None,
    };
    let _ = Link::close(autd.link_mut());
    cache.insert((mask.to_vec(), d), out.clone());
    out
}

struct Ctx {
    out: Out,
    sampled: BTreeSet<String>,
    refs: HashMap<(Vec<bool>, DgSpec), Option<Vec<Snap>>>,
    cap_hits: u32,
    runs: u64,
    start: std::time::Instant,
    budget: Duration,
}

/// the property itself, stated on the implementation's run
fn oracle(ctx: &mut Ctx, c: &Case, order: &[u8], r: &RunOut) {
    let n = c.n();
    let id = format!("{} order={}", c.sig(), join(order, ",")).replace(' ', ";");
    let replay = || {
        vec![
            c.line(order),
            format!("devices={n} enabled-before={} key_map(idx)={} datagrams={{{}}} link-fault={} api={} observed-iteration-order={}", bits(&c.en), c.km_token(), c.map_token(), c.fault.token(), c.api.token(), join(order, ",")),
            format!("result={} enable-after={}", r.result, bits(&r.after)),
        ]
    };
    let viol = |ctx: &mut Ctx, kind: &str, what: String| {
        ctx.out.violation(format!("group:{kind}:{id}"), what, replay());
    };
    if r.result == "panic" {
        viol(ctx, "panic", "group_send panicked".into());
    }
    if r.result == "err:livelock" {
        viol(ctx, "livelock", "group_send kept transmitting (more than 400 rounds; stopped by the link watchdog)".into());
    }
    // (1) enable flags restored on every exit
    if r.after != r.before {
        viol(ctx, "enable", format!("group_send returned `{}` and left Device::enable = {} (was {})", r.result, bits(&r.after), bits(&r.before)));
    }
    // (4) key errors
    let used = c.used_keys();
    let missing: Vec<u8> = used.iter().copied().filter(|k| c.dg(*k).is_none()).collect();
    let extra: Vec<u8> = {
        let mut v: Vec<u8> = c.map.iter().map(|(k, _)| *k).filter(|k| !used.contains(k)).collect();
        v.sort();
        v
    };
    let any_genfail = c.map.iter().any(|(k, d)| d.fail && used.contains(k));
    if let Some(k) = r.result.strip_prefix("err:unknown:") {
        if !missing.iter().any(|m| m.to_string() == k) {
            viol(ctx, "keys", format!("UnknownKey({k}) but the keys without a datagram are {missing:?}"));
        }
    } else if !missing.is_empty() && !any_genfail {
        viol(ctx, "keys", format!("keys {missing:?} have no datagram but the result is `{}`", r.result));
    } else if !missing.is_empty() && !r.result.starts_with("err:") {
        viol(ctx, "keys", format!("keys {missing:?} have no datagram but the result is `{}`", r.result));
    }
    if let Some(ks) = r.result.strip_prefix("err:unused:") {
        if missing.is_empty() && ks != join(&extra, ",") || !missing.is_empty() || extra.is_empty() {
            viol(ctx, "keys", format!("UnusedKey({ks}) but the datagrams without a device are {extra:?}, keys without a datagram {missing:?}"));
        }
    } else if missing.is_empty() && !extra.is_empty() && !any_genfail {
        viol(ctx, "keys", format!("datagrams {extra:?} are mapped to no device but the result is `{}`", r.result));
    }
    let key_error = r.result.starts_with("err:unknown") || r.result.starts_with("err:unused") || r.result.starts_with("err:gen");
    if key_error && r.rounds.iter().any(|x| !x.is_empty()) {
        viol(ctx, "keys", format!("`{}` but frames were transmitted: {:?}", r.result, r.rounds));
    }
    // (3) unmapped and disabled devices are untouched — on every exit
    for i in 0..n {
        let mapped = c.en[i] && c.km[i].is_some();
        if !mapped || key_error {
            if r.snap_after[i] != r.snap_before[i] {
                viol(ctx, "untouched", format!("device {i} ({}) changed state: {} -> {} (ack {} -> {})", if mapped { "mapped, but the call failed before transmission" } else if c.en[i] { "mapped to no key" } else { "disabled" }, r.snap_before[i].obs(), r.snap_after[i].obs(), r.snap_before[i].ack, r.snap_after[i].ack));
            }
            if r.rounds.iter().flatten().any(|f| f.starts_with(&format!("{i}:"))) {
                viol(ctx, "untouched", format!("device {i} was sent a frame: {:?}", r.rounds));
            }
        }
    }
    // (2) on Ok: state of every mapped device = plain send of its datagram (group enabled / alone)
    if r.result == "ok" {
        for i in 0..n {
            if let (true, Some(k)) = (c.en[i], c.km[i]) {
                let Some(d) = c.dg(k) else { continue };
                let gm = c.group_mask(k);
                match reference(&mut ctx.refs, &gm, d) {
                    Some(rf) => {
                        if rf[i].no_ack() != r.snap_after[i].no_ack() {
                            viol(ctx, "equiv", format!("device {i} (key {k}, datagram {}): state {} differs from the state {} after sending the datagram to its group alone", d.token(), r.snap_after[i].obs(), rf[i].obs()));
                        }
                    }
                    None => viol(ctx, "equiv", format!("group_send is Ok but sending {} to group {} alone fails", d.token(), bits(&gm))),
                }
                let alone: Vec<bool> = (0..n).map(|j| j == i).collect();
                if let Some(rf) = reference(&mut ctx.refs, &alone, d) {
                    if rf[i].core() != r.snap_after[i].core() {
                        viol(ctx, "equiv", format!("device {i} (key {k}, datagram {}): state {} differs from the state {} after sending the datagram to that device alone", d.token(), r.snap_after[i].obs(), rf[i].obs()));
                    }
                }
            }
        }
        // every visited generator saw exactly its group enabled
        for (k, seen) in &r.visited {
            if let Some(m) = seen {
                let gm = c.group_mask(*k).iter().enumerate().fold(0u32, |m, (i, &b)| if b { m | 1 << i } else { m });
                if *m != gm {
                    viol(ctx, "equiv", format!("the generator of key {k} saw enabled set {m:#b}, its group is {gm:#b}"));
                }
            }
        }
    }
    // on every exit: a mapped device has received only frames of its own datagram, in order
    for i in 0..n {
        if let (true, Some(k)) = (c.en[i], c.km[i]) {
            let mine: Vec<&String> = r.rounds.iter().flatten().filter(|f| f.starts_with(&format!("{i}:"))).collect();
            if let Some(d) = c.dg(k) {
                let pre = match d.kind {
                    Kind::Gain => format!("{i}:g{}.", d.id),
                    Kind::Mod => format!("{i}:m{}#", d.id),
                };
                if mine.iter().any(|f| !f.starts_with(&pre)) {
                    viol(ctx, "equiv", format!("device {i} (key {k}, datagram {}) was sent {:?}", d.token(), mine));
                }
            } else if !mine.is_empty() {
                viol(ctx, "untouched", format!("device {i} (key {k} has no datagram) was sent {:?}", mine));
            }
        }
    }
}

/// all orders in which `group_send` may visit the keys, reduced to what can be observed: the
/// sequence up to and including the first key that stops the loop
fn expected_classes(c: &Case) -> BTreeSet<Vec<u8>> {
    fn perms(v: &[u8]) -> Vec<Vec<u8>> {
        if v.len() <= 1 {
            return vec![v.to_vec()];
        }
        let mut out = vec![];
        for i in 0..v.len() {
            let mut rest = v.to_vec();
            let x = rest.remove(i);
            for mut p in perms(&rest) {
                p.insert(0, x);
                out.push(p);
            }
        }
        out
    }
    perms(&c.used_keys())
        .into_iter()
        .map(|p| {
            let mut pre = vec![];
            for k in p {
                pre.push(k);
                match c.dg(k) {
                    None => break,
                    Some(d) if d.fail => break,
                    _ => {}
                }
            }
            pre
        })
        .collect()
}

fn run_case(ctx: &mut Ctx, c: &Case, tag: &str) {
    // never reached on an implementation that behaves (the whole stream takes seconds); a broken one
    // (violations already recorded, order classes that never show up, timeouts) must not stall the check
    if ctx.start.elapsed() > ctx.budget {
        ctx.out.count("cases-skipped-after-time-budget");
        return;
    }
    let expected = expected_classes(c);
    let used = c.used_keys();
    let cap = if ctx.cap_hits > 10 || ctx.out.violations.len() >= 50 { 8 } else if used.len() >= 3 { 150 } else { 60 };
    let mut seen: BTreeMap<Vec<u8>, RunOut> = BTreeMap::new();
    let mut attempts = 0;
    while attempts < cap {
        attempts += 1;
        ctx.runs += 1;
        let r = run_once(c);
        let pre = r.order_prefix();
        if let Some(prev) = seen.get(&pre) {
            if prev.answers() != r.answers() {
                ctx.out.violation(
                    format!("group:nondeterministic:{} order={}", c.sig(), join(&pre, ",")).replace(' ', ";"),
                    format!("two runs with the same iteration order differ: {:?} vs {:?}", prev.answers(), r.answers()),
                    vec![c.line(&pre)],
                );
            }
        } else {
            seen.insert(pre, r);
        }
        if expected.iter().all(|e| seen.contains_key(e)) {
            break;
        }
    }
    if !expected.iter().all(|e| seen.contains_key(e)) {
        ctx.cap_hits += 1;
        ctx.out.count("order-classes-not-all-seen");
    }
    ctx.out.count_n("order-classes", seen.len() as u64);
    for (pre, r) in &seen {
        // full order handed to the model: the observed prefix, then the unvisited keys ascending
        let mut order = pre.clone();
        for k in &used {
            if !order.contains(k) {
                order.push(*k);
            }
        }
        let line = c.line(&order);
        let a = r.answers();
        ctx.out.line(&line, &a[0]);
        ctx.out.line("flags", &a[1]);
        ctx.out.line("visited", &a[2]);
        ctx.out.line("log", &a[3]);
        ctx.out.line("obs", &a[4]);
        // one written-out sample per generator (the first few generators)
        if ctx.sampled.insert(tag.split('-').next().unwrap_or(tag).to_string()) {
            ctx.out.sample(format!("[{tag}] {line} -> {}", a.join(" / ")));
        }
        let trivial = used.is_empty() && c.map.is_empty();
        ctx.out.case(if trivial { None } else { Some(fnv64(format!("{} {}", line, tag).as_bytes())) });
        ctx.out.count(&format!("result:{}", r.result.split(':').take(2).collect::<Vec<_>>().join(":")));
        ctx.out.count(&format!("keys-used:{}", used.len()));
        ctx.out.count(&format!("devices:{}", c.n()));
        ctx.out.count(&format!("api:{}", c.api.token()));
        ctx.out.count(&format!("gen:{tag}"));
        if c.fault != Fault::None {
            ctx.out.count(&format!("fault:{}", c.fault.token()));
        }
        if let Some(p) = pre.iter().position(|k| c.dg(*k).map(|d| d.fail).unwrap_or(true)) {
            ctx.out.count(&format!("loop-stops-at-position:{p}/{}", used.len()));
        }
        if r.rounds.len() > 1 {
            ctx.out.count("multi-round-transmissions");
        }
        if r.before.iter().any(|b| !b) {
            ctx.out.count("some-device-disabled-beforehand");
        }
        oracle(ctx, c, &order, r);
    }
}

// ------------------------------------------------------------------------------------------------
// generators

/// every key assignment of `n` devices to keys `0..nk` or none, in which the keys that occur are
/// numbered in order of first appearance (key names are interchangeable)
fn assignments(n: usize, nk: u8) -> Vec<Vec<Option<u8>>> {
    fn go(n: usize, nk: u8, cur: &mut Vec<Option<u8>>, next: u8, out: &mut Vec<Vec<Option<u8>>>) {
        if cur.len() == n {
            out.push(cur.clone());
            return;
        }
        cur.push(None);
        go(n, nk, cur, next, out);
        cur.pop();
        for k in 0..=next.min(nk - 1) {
            cur.push(Some(k));
            go(n, nk, cur, if k == next { next + 1 } else { next }, out);
            cur.pop();
        }
    }
    let mut out = vec![];
    go(n, nk, &mut vec![], 0, &mut out);
    out
}

fn masks(n: usize) -> Vec<Vec<bool>> {
    (0..1u32 << n).rev().map(|m| (0..n).map(|i| m >> i & 1 == 1).collect()).collect()
}

/// the standard datagram of key `k`: distinct ids, one multi-frame modulation among them
fn std_dg(k: u8) -> DgSpec {
    match k % 3 {
        0 => DgSpec::g(17 + k),
        1 => DgSpec::m(33 + k, 900),
        _ => DgSpec::g(65 + k),
    }
}

pub fn run(args: &Args) {
    let mut ctx = Ctx { out: Out::new(&args.out), sampled: BTreeSet::new(), refs: HashMap::new(), cap_hits: 0, runs: 0, start: std::time::Instant::now(), budget: Duration::from_secs(if args.tier == "thorough" { 600 } else { 90 }) };
    let thorough = args.tier == "thorough";
    let mut rng = Rng::new(args.seed ^ 0xC13);
    let base = |en: Vec<bool>, km: Vec<Option<u8>>, map: Vec<(u8, DgSpec)>| Case { en, km, map, fault: Fault::None, api: Api::Sync, parallel: false };
    let apis = [Api::Sync, Api::Async];

    // ---- corpus first: DESIGN §6 F11 (key without datagram; generator error) on both copies ----
    for api in [Api::Sync, Api::Async, Api::SyncCtl, Api::AsyncCtl] {
        let mut c = base(vec![true; 3], vec![Some(0), Some(1), Some(2)], vec![(0, DgSpec::g(17)), (2, DgSpec::g(67))]);
        c.api = api;
        run_case(&mut ctx, &c, "corpus-F11-unknown-key");
        let mut c = base(vec![true; 3], vec![Some(0), Some(1), Some(2)], vec![(0, DgSpec::g(17)), (1, DgSpec::g(40).failing()), (2, DgSpec::m(35, 300))]);
        c.api = api;
        run_case(&mut ctx, &c, "corpus-F11-generator-error");
        let mut c = base(vec![true, true], vec![Some(0), Some(1)], vec![(0, DgSpec::g(17)), (1, DgSpec::m(34, 10).failing())]);
        c.api = api;
        run_case(&mut ctx, &c, "corpus-F11-generator-error");
        // the repository's own unit-test shapes
        let mut c = base(vec![true; 4], vec![Some(0), Some(1), None, Some(2)], vec![(0, DgSpec::g(17)), (1, DgSpec::m(0x80, 2)), (2, DgSpec::m(36, 1500))]);
        c.api = api;
        run_case(&mut ctx, &c, "corpus-repo-tests");
        let mut c = base(vec![true, true], vec![Some(0), Some(1)], vec![(0, DgSpec::g(1)), (1, DgSpec::g(2)), (2, DgSpec::g(3))]);
        c.api = api;
        run_case(&mut ctx, &c, "corpus-repo-tests");
        let mut c = base(vec![true], vec![Some(0)], vec![(0, DgSpec::g(9))]);
        c.api = api;
        c.fault = Fault::Send(0);
        run_case(&mut ctx, &c, "corpus-repo-tests");
    }
    // pack-time failures (modulation too short / too long: the latter fails after 106 frames went out)
    for api in apis {
        let mut c = base(vec![true; 3], vec![Some(0), Some(1), Some(0)], vec![(0, DgSpec::g(17)), (1, DgSpec::m(34, 1))]);
        c.api = api;
        run_case(&mut ctx, &c, "pack-error");
        let mut c = base(vec![true; 3], vec![Some(1), Some(0), Some(1)], vec![(0, DgSpec::m(34, 0)), (1, DgSpec::m(35, 700))]);
        c.api = api;
        run_case(&mut ctx, &c, "pack-error");
        let mut c = base(vec![true, false, true], vec![Some(0), Some(0), Some(1)], vec![(0, DgSpec::m(34, 65537)), (1, DgSpec::m(35, 300))]);
        c.api = api;
        run_case(&mut ctx, &c, "pack-error");
    }

    // ---- all assignments × all prior masks, matching datagram map, both copies ----
    for n in 1..=4usize {
        let asg = assignments(n, 3);
        for en in masks(n) {
            for km in &asg {
                let mut c = base(en.clone(), km.clone(), vec![]);
                c.map = c.used_keys().iter().map(|&k| (k, std_dg(k))).collect();
                if thorough || n <= 3 {
                    for api in apis {
                        c.api = api;
                        run_case(&mut ctx, &c, "assignments");
                    }
                } else {
                    c.api = *rng.pick(&apis);
                    run_case(&mut ctx, &c, "assignments");
                }
                // the rayon pack path must not change anything
                if rng.chance(1, if thorough { 4 } else { 16 }) {
                    c.api = *rng.pick(&apis);
                    c.parallel = true;
                    run_case(&mut ctx, &c, "assignments-parallel-pack");
                }
            }
        }
    }

    // ---- missing / extra keys; failing datagram at each key; link failure at each send ----
    // exhaustive over assignments × masks for n ≤ 3 (thorough: n ≤ 4); for n = 4 in the quick tier:
    // every assignment with all devices enabled, and a sample of the other masks
    for n in 1..=4usize {
        let asg = assignments(n, 3);
        for en in masks(n) {
            for km in &asg {
                let c0 = {
                    let mut c = base(en.clone(), km.clone(), vec![]);
                    c.map = c.used_keys().iter().map(|&k| (k, std_dg(k))).collect();
                    c
                };
                let used = c0.used_keys();
                let full = en.iter().all(|&b| b);
                if !(thorough || n <= 3 || full || rng.chance(1, 8)) {
                    continue;
                }
                // (a) each used key missing
                for &k in &used {
                    let mut c = c0.clone();
                    c.map.retain(|(kk, _)| *kk != k);
                    c.api = *rng.pick(&apis);
                    run_case(&mut ctx, &c, "missing-key");
                }
                // (b) extra keys (one, two), also together with a missing one
                {
                    let mut c = c0.clone();
                    c.map.push((7, DgSpec::g(99)));
                    c.api = *rng.pick(&apis);
                    run_case(&mut ctx, &c, "extra-key");
                    c.map.push((5, DgSpec::m(98, 40)));
                    c.api = *rng.pick(&apis);
                    run_case(&mut ctx, &c, "extra-key");
                    if let Some(&k) = used.first() {
                        c.map.retain(|(kk, _)| *kk != k);
                        run_case(&mut ctx, &c, "missing-and-extra");
                    }
                }
                // a datagram for a key that only disabled devices are mapped to is an extra key
                if !full {
                    let mut c = c0.clone();
                    let hidden: BTreeSet<u8> = (0..n).filter(|&i| !en[i]).filter_map(|i| km[i]).filter(|k| !used.contains(k)).collect();
                    if let Some(&k) = hidden.iter().next() {
                        c.map.push((k, std_dg(k)));
                        c.api = *rng.pick(&apis);
                        run_case(&mut ctx, &c, "key-of-disabled-device-only");
                    }
                }
                // (c) a datagram that fails when its generator is built, at each key, both kinds
                for &k in &used {
                    for kind in [Kind::Gain, Kind::Mod] {
                        let mut c = c0.clone();
                        for e in c.map.iter_mut() {
                            if e.0 == k {
                                e.1 = if kind == Kind::Gain { DgSpec::g(40 + k).failing() } else { DgSpec::m(50 + k, 300).failing() };
                            }
                        }
                        c.api = *rng.pick(&apis);
                        run_case(&mut ctx, &c, "generator-error");
                    }
                }
                // failing generator + another key missing (whichever the order visits first wins)
                if used.len() >= 2 {
                    let mut c = c0.clone();
                    c.map.retain(|(kk, _)| *kk != used[0]);
                    for e in c.map.iter_mut() {
                        if e.0 == used[1] {
                            e.1 = DgSpec::g(41).failing();
                        }
                    }
                    c.api = *rng.pick(&apis);
                    run_case(&mut ctx, &c, "generator-error-and-missing-key");
                }
                // (d) link failure at every send / receive of the transmission (900 samples = 3 frames)
                if !used.is_empty() {
                    let rounds = if used.contains(&1) { 3 } else { 1 };
                    for s in 0..=rounds {
                        for f in [Fault::Send(s), Fault::Recv(s)] {
                            let mut c = c0.clone();
                            c.fault = f;
                            c.api = *rng.pick(&apis);
                            run_case(&mut ctx, &c, "link-failure");
                        }
                    }
                }
                // (e) pack failure of one group
                if !used.is_empty() {
                    let mut c = c0.clone();
                    let k = *rng.pick(&used);
                    for e in c.map.iter_mut() {
                        if e.0 == k {
                            e.1 = DgSpec::m(60 + k, 1);
                        }
                    }
                    c.api = *rng.pick(&apis);
                    run_case(&mut ctx, &c, "pack-error");
                }
            }
        }
    }

    // ---- random: free key names (not first-appearance order), random datagram kinds and lengths, shortcut api, parallel ----
    let nrand = if thorough { 6000 } else { 600 };
    for _ in 0..nrand {
        // beyond the quantifier's four devices in the thorough tier
        let n = rng.range(1, if thorough { 6 } else { 4 }) as usize;
        let en: Vec<bool> = (0..n).map(|_| rng.chance(3, 4)).collect();
        let names: Vec<u8> = {
            let mut v = vec![0u8, 1, 2, 3, 4, 5, 6, 7, 8, 9];
            for i in (1..v.len()).rev() {
                v.swap(i, rng.below(i as u64 + 1) as usize);
            }
            v.truncate(3);
            v
        };
        let km: Vec<Option<u8>> = (0..n).map(|_| if rng.chance(1, 5) { None } else { Some(*rng.pick(&names)) }).collect();
        let mut c = base(en, km, vec![]);
        let lens = [2usize, 3, 253, 254, 255, 256, 871, 872, 873, 1489, 1490, 1491, 2000];
        let mut id = rng.range(1, 200) as u8;
        for k in c.used_keys() {
            if rng.chance(1, 12) {
                continue; // missing
            }
            id = id % 250 + 1;
            let mut d = if rng.chance(1, 2) { DgSpec::g(id) } else { DgSpec::m(id, *rng.pick(&lens)) };
            if rng.chance(1, 12) {
                d = d.failing();
            }
            c.map.push((k, d));
        }
        if rng.chance(1, 10) {
            let k = (0..10u8).find(|k| !names.contains(k)).unwrap();
            c.map.push((k, DgSpec::g(251)));
        }
        c.fault = match rng.below(6) {
            0 => Fault::Send(rng.below(4) as usize),
            1 => Fault::Recv(rng.below(4) as usize),
            _ => Fault::None,
        };
        let multi = c.map.iter().any(|(_, d)| d.kind == Kind::Mod && d.len > 254);
        c.api = match rng.below(8) {
            0 if !multi => Api::SyncCtl,
            1 if !multi => Api::AsyncCtl,
            x if x % 2 == 0 => Api::Sync,
            _ => Api::Async,
        };
        c.parallel = matches!(c.api, Api::Sync | Api::Async) && rng.chance(1, 4) && c.map.iter().all(|(_, d)| d.healthy());
        run_case(&mut ctx, &c, "random");
    }

    let runs = ctx.runs;
    ctx.out.count_n("group_send-executions", runs);
    ctx.out.finish(
        "group",
        "a case is one execution of group_send for one (devices, prior enable mask, key assignment, datagram map, link fault, api copy, observed key-iteration order); non-trivial = some enabled device is mapped or the datagram map is non-empty; distinct by all of those",
    );
}
