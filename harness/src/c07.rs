//! `foci` stream (C07): device poses × sound speeds × focal points.  For each pose an `AUTD3` device
//! is built with the **real** geometry code, a `Focus` gain and a `FociSTM` (N = 1..8 foci per
//! pattern) are sent through the real driver to the firmware emulator and the drives are read back.
//!
//! Compared with the Lean model (`Model/Foci.lean`), line by line:
//!   * firmware side **exactly**: `fw <sound-speed word> <record>…` (integers taken from the wire
//!     frame) ↦ the 249 (phase, intensity) pairs of `drives_at`;
//!   * record bytes exactly: `io <intensity> <offsets>` ↦ byte 54..61 of every record of the pattern;
//!   * float-evaluated SDK outputs by **set membership** decided in exact integer arithmetic by the
//!     model (the op line carries the implementation's integers, the answer is `ok`): transducer
//!     positions (`trs`), sound-speed word (`ss`), fixed-point record coordinates (`rec`), Focus gain
//!     phase bytes (`focus`).  No float is compared.
//!
//! Oracle (the property itself on the implementation; `f64`, support only):
//!   (a) every Focus-gain contribution arrives at the focal point within 0.5 + 0.05 phase steps of
//!       phase zero: `byte − offset + 256·f·d/c ≡ 0`;
//!   (b) single-focus FociSTM phase − Focus phase ∈ [−4, 6] steps (the window of `fw_vs_focus_bound`);
//!   (c) N foci: firmware phase follows `−arg Σ_j exp(i·2π(256·f·d_j/c + off_j − off_0)/256)` within
//!       `2.5 + 4/ρ` steps whenever `ρ = |Σ|/N ≥ 0.3`;
//!   (d) the emitted intensity is the requested one on every transducer (gain and STM).
//!
//! Devices per geometry: a third of the random poses are *rigs* of 2–3 AUTD3s with different poses and
//! different `Device::sound_speed`; one datagram reaches all of them and every line and oracle clause is
//! evaluated per device, against that device's transducers and sound speed (`rig` / `keep` / `dev <k>` lines
//! tell the model which device the following lines belong to).  Invisible to the model (it computes from the
//! records): a *used* device (long STMs, also with 8 foci per pattern, written before; the write page dirtied),
//! a single-focus STM sent after the multi-focus ones, patterns beyond the first frame.
#![allow(dead_code)]
use crate::common::*;
use crate::fwc::{World, to_div};
use autd3::prelude::*;
use autd3_core::geometry::{Quaternion, UnitQuaternion};
use autd3_driver::datagram::{ControlPoint, ControlPoints};

pub const NUM_TR: usize = 249;
const FREQ: f64 = 40000.0;

#[derive(Clone, Debug)]
pub struct Pose {
    pub pos: [f32; 3],
    /// w, i, j, k as requested (normalised by the SDK)
    pub quat: [f32; 4],
    pub c: f32,
    pub kind: &'static str,
}

/// one AUTD3 per pose; a single device gets its sound speed through `Geometry::set_sound_speed`, the devices of a
/// rig each their own through `Device::sound_speed`
static MAKE_GEO_CALLS: std::sync::atomic::AtomicU64 = std::sync::atomic::AtomicU64::new(0);
static RECONFIGURED: std::sync::atomic::AtomicU64 = std::sync::atomic::AtomicU64::new(0);

pub fn make_geo(poses: &[Pose]) -> Geometry {
    let devs = poses
        .iter()
        .map(|p| {
            let rot = UnitQuaternion::new_normalize(Quaternion::new(p.quat[0], p.quat[1], p.quat[2], p.quat[3]));
            AUTD3 { pos: Point3::new(p.pos[0], p.pos[1], p.pos[2]), rot }.into()
        })
        .collect();
    let mut g = Geometry::new(devs);
    // every other geometry reaches its poses through `Geometry::reconfigure` from decoy poses: everything a device
    // derives from its pose (transducer positions, directions, the cached inverse isometry FociSTM localises its
    // points with) must follow the move - seeded change C07-9 left the cached inverse behind
    if MAKE_GEO_CALLS.fetch_add(1, std::sync::atomic::Ordering::Relaxed) % 2 == 1 {
        let decoys: Vec<autd3_core::geometry::Device> = poses
            .iter()
            .enumerate()
            .map(|(i, p)| {
                let rot = UnitQuaternion::new_normalize(Quaternion::new(0.3 + 0.1 * i as f32, p.quat[3] + 0.5, -0.4, p.quat[1] - 0.7));
                AUTD3 { pos: Point3::new(p.pos[2] + 31.0, p.pos[0] - 57.0, p.pos[1] + 13.0 * (i + 1) as f32), rot }.into()
            })
            .collect();
        let mut moved = Geometry::new(decoys);
        moved.reconfigure(|d| {
            let p = &poses[d.idx()];
            AUTD3 { pos: Point3::new(p.pos[0], p.pos[1], p.pos[2]), rot: UnitQuaternion::new_normalize(Quaternion::new(p.quat[0], p.quat[1], p.quat[2], p.quat[3])) }
        });
        RECONFIGURED.fetch_add(1, std::sync::atomic::Ordering::Relaxed);
        g = moved;
    }
    if poses.len() == 1 {
        g.set_sound_speed(poses[0].c);
    } else {
        for (i, p) in poses.iter().enumerate() {
            g[i].sound_speed = p.c;
        }
    }
    g
}

type Pattern = Vec<([f32; 3], u8)>;

macro_rules! stm_n {
    ($n:literal, $w:expr, $pats:expr, $intens:expr) => {{
        let pts: Vec<ControlPoints<$n>> = $pats
            .iter()
            .zip($intens.iter())
            .map(|(pat, &it): (&Pattern, &u8)| {
                let mut cps = [ControlPoint::default(); $n];
                for j in 0..$n {
                    let (p, o) = pat[j];
                    cps[j] = ControlPoint::new(Point3::new(p[0], p[1], p[2]), Phase(o));
                }
                ControlPoints::new(cps, EmitIntensity(it))
            })
            .collect();
        $w.send_dg(FociSTM::new(pts, to_div(5120)), usize::MAX)
    }};
}

pub struct StmRead {
    pub result: String,
    pub cw: u16,
    pub nf: usize,
    /// raw 64-bit records of every pattern, in wire order
    pub words: Vec<u64>,
    /// per pattern: (phase, intensity) of every transducer, or the panic message
    pub drives: Vec<Result<Vec<(u8, u8)>, String>>,
    /// register read-backs that disagree with what was sent: (oracle clause, text)
    pub notes: Vec<(&'static str, String)>,
}

/// FociSTM of `pats.len()` patterns with the same number of foci each, sent to every device of the world; per
/// device: the records and the sound-speed word taken from *its* frames on the wire (any number of frames), and
/// the drives read back from *its* emulator
pub fn send_stm(w: &mut World, pats: &[Pattern], intens: &[u8]) -> Result<Vec<StmRead>, String> {
    let n = pats[0].len();
    w.keep_frames = true;
    let o = match n {
        1 => stm_n!(1, w, pats, intens),
        2 => stm_n!(2, w, pats, intens),
        3 => stm_n!(3, w, pats, intens),
        4 => stm_n!(4, w, pats, intens),
        5 => stm_n!(5, w, pats, intens),
        6 => stm_n!(6, w, pats, intens),
        7 => stm_n!(7, w, pats, intens),
        _ => stm_n!(8, w, pats, intens),
    };
    if o.result != "ok" {
        return Err(format!("{}:frames={}", o.result, o.frames));
    }
    let mut res = vec![];
    for dev in 0..w.cpus.len() {
        let mut r = StmRead { result: o.result.clone(), cw: 0, nf: n, words: vec![], drives: vec![], notes: vec![] };
        // TxMessage = 4-byte header + payload; first payload = FociSTMHead (24 bytes; send_num at 2, sound_speed at 6) +
        // records, later payloads = FociSTMSubseq (4 bytes; send_num at 2) + records
        for (k, (_, f)) in w.frames.iter().filter(|(i, _)| *i == dev).enumerate() {
            let pl = &f[4..];
            let first = pl[1] & 1 == 1;
            if first != (k == 0) {
                return Err(format!("device {dev}: frame {k} has BEGIN = {first}"));
            }
            let off = if first { 24 } else { 4 };
            if first {
                r.cw = u16::from_le_bytes([pl[6], pl[7]]);
            }
            for j in 0..pl[2] as usize * n {
                let b: [u8; 8] = pl[off + 8 * j..off + 8 * j + 8].try_into().unwrap();
                r.words.push(u64::from_le_bytes(b));
            }
        }
        if r.words.len() != pats.len() * n {
            return Err(format!("device {dev}: {} records on the wire for {} patterns x {n} foci", r.words.len(), pats.len()));
        }
        let fpga = w.cpus[dev].fpga();
        if fpga.sound_speed(Segment::S0) != r.cw {
            r.notes.push(("sound-speed-register", format!("device {dev}: the sound-speed word on the wire is {} but the device holds {}", r.cw, fpga.sound_speed(Segment::S0))));
        }
        if fpga.num_foci(Segment::S0) as usize != n {
            r.notes.push(("foci-per-pattern-register", format!("device {dev}: the STM has {n} foci per pattern but the device plays {}", fpga.num_foci(Segment::S0))));
        }
        for i in 0..pats.len() {
            r.drives.push(guarded(|| fpga.drives_at(Segment::S0, i).iter().map(|d| (d.phase.0, d.intensity.0)).collect()));
        }
        res.push(r);
    }
    Ok(res)
}

/// Focus gain to every device; per device its drives
pub fn send_focus(w: &mut World, p: [f32; 3], off: u8, intensity: u8) -> (String, Vec<Vec<(u8, u8)>>) {
    let o = w.send_dg(
        Focus::new(Point3::new(p[0], p[1], p[2]), FocusOption { intensity: EmitIntensity(intensity), phase_offset: Phase(off) }),
        usize::MAX,
    );
    if o.result != "ok" {
        return (o.result, vec![]);
    }
    let ds = w.cpus.iter().map(|c| c.fpga().drives_at(Segment::S0, 0).iter().map(|d| (d.phase.0, d.intensity.0)).collect()).collect();
    (o.result, ds)
}

fn rotm(q: [f64; 4]) -> [[f64; 3]; 3] {
    let (w, x, y, z) = (q[0], q[1], q[2], q[3]);
    let n = w * w + x * x + y * y + z * z;
    let s = 2.0 / n;
    [
        [1.0 - s * (y * y + z * z), s * (x * y - z * w), s * (x * z + y * w)],
        [s * (x * y + z * w), 1.0 - s * (x * x + z * z), s * (y * z - x * w)],
        [s * (x * z - y * w), s * (y * z + x * w), 1.0 - s * (x * x + y * y)],
    ]
}

fn circ(a: f64) -> f64 {
    let r = a.rem_euclid(256.0);
    if r >= 128.0 { r - 256.0 } else { r }
}

fn rf(rng: &mut Rng, lo: f64, hi: f64) -> f64 {
    lo + (hi - lo) * (rng.below(1 << 30) as f64 / (1u64 << 30) as f64)
}

fn hx(v: f32) -> String {
    format!("{:08x}", v.to_bits())
}
fn hx3(p: [f32; 3]) -> String {
    format!("{} {} {}", hx(p[0]), hx(p[1]), hx(p[2]))
}
fn drives_hex(d: &[(u8, u8)]) -> String {
    let v: Vec<u8> = d.iter().flat_map(|&(p, i)| [p, i]).collect();
    hex(&v)
}

/// one device of a rig, with everything read back from the real `Device`
struct Info {
    pose: Pose,
    pose_line: String,
    /// rotation matrix of the stored quaternion, transducer positions (f64 copies of the f32s)
    r: [[f64; 3]; 3],
    trs: Vec<[f64; 3]>,
    c: f64,
}

/// a geometry of 1..3 posed devices and their emulators
struct Dev {
    w: World,
    infos: Vec<Info>,
    /// the device in whose local frame the test points are generated
    home: usize,
    /// a *used* rig: a long STM is written to the other segment right before every STM under test
    used: bool,
}

impl Dev {
    fn h(&self) -> &Info {
        &self.infos[self.home]
    }
    /// replay head for an observation on device `k`: the pose line(s) the model needs
    fn head(&self, k: usize) -> Vec<String> {
        if self.infos.len() == 1 {
            vec![self.infos[0].pose_line.clone()]
        } else {
            let mut v: Vec<String> = self.infos.iter().enumerate().map(|(j, i)| format!("device {j} of {}: {}", self.infos.len(), i.pose_line)).collect();
            v.push(format!("observed on device {k}"));
            v
        }
    }
    /// stable key part naming the device observed (and its place in the rig)
    fn key(&self, k: usize) -> String {
        let p = self.infos[k].pose_line.replace(' ', "_");
        if self.infos.len() == 1 { p } else { format!("dev{k}of{}:{p}", self.infos.len()) }
    }
}

struct Ctx {
    out: Out,
    max_multi_ratio: f64,
    max_focus_excess: f64,
    /// violations reported so far per oracle clause (the report keeps the first few of each)
    per_kind: std::collections::BTreeMap<String, u32>,
    /// devices opened so far (every third one is a *used* device)
    opened: u64,
}

impl Ctx {
    /// report an oracle violation; at most 3 per clause so that a broken build prints a short list
    fn viol(&mut self, key: String, what: String, replay: Vec<String>) {
        let kind: String = key.split(':').take(2).collect::<Vec<_>>().join(":");
        let n = self.per_kind.entry(kind.clone()).or_insert(0);
        *n += 1;
        self.out.count(&format!("violations:{kind}"));
        if *n <= 3 {
            self.out.violation(key, what, replay);
        }
    }

    /// tell the model which device of the rig the following lines belong to
    fn select(&mut self, d: &Dev, k: usize) {
        if d.infos.len() > 1 {
            self.out.line(&format!("dev {k}"), "ok");
        }
    }

    fn open(&mut self, poses: &[Pose], home: usize) -> Dev {
        let mut w = World::new(poses.len(), 0);
        w.geo = make_geo(poses);
        let multi = poses.len() > 1;
        if multi {
            self.out.line("rig", "ok");
            self.out.count(&format!("devices-per-geometry:{}", poses.len()));
            let cs: Vec<f32> = poses.iter().map(|p| p.c).collect();
            self.out.count(if cs.iter().all(|&c| c == cs[0]) { "rig:same-sound-speed" } else { "rig:different-sound-speeds" });
        } else {
            self.out.count("devices-per-geometry:1");
        }
        let mut infos = vec![];
        for (k, pose) in poses.iter().enumerate() {
            let dev = &w.geo[k];
            let q = dev.rotation().coords; // nalgebra order: i, j, k, w
            let stored = [q[3], q[0], q[1], q[2]];
            let r = rotm([stored[0] as f64, stored[1] as f64, stored[2] as f64, stored[3] as f64]);
            let trs: Vec<[f64; 3]> = dev.iter().map(|t| [t.position().x as f64, t.position().y as f64, t.position().z as f64]).collect();
            let c = dev.sound_speed;
            let pose_line = format!("pose {} {} {} {} {} {}", hx3(pose.pos), hx(stored[0]), hx(stored[1]), hx(stored[2]), hx(stored[3]), hx(c));
            self.out.line(&pose_line, "ok");
            let mut s = String::with_capacity(24 * NUM_TR);
            for t in dev.iter() {
                s.push_str(&hx(t.position().x));
                s.push_str(&hx(t.position().y));
                s.push_str(&hx(t.position().z));
            }
            self.out.line(&format!("trs {s}"), "ok");
            if multi {
                self.out.line("keep", "ok");
            }
            self.out.count(&format!("pose:{}", pose.kind));
            let band = if pose.c <= 300e3 { "c=300" } else if pose.c >= 400e3 { "c=400" } else if pose.c < 333e3 { "c<333" } else if pose.c < 366e3 { "c<366" } else { "c<400" };
            self.out.count(&format!("sound-speed:{band}"));
            // oracle: the SDK's transducer layout is the pose applied to the grid (support for `trs`)
            'outer: for (i, t) in trs.iter().enumerate() {
                let (gx, gy) = AUTD3::grid_id(i);
                let l = [gx as f64 * 10.16, gy as f64 * 10.16, 0.0];
                for a in 0..3 {
                    let ideal = pose.pos[a] as f64 + r[a][0] * l[0] + r[a][1] * l[1] + r[a][2] * l[2];
                    if (t[a] - ideal).abs() > 0.01 {
                        self.viol(
                            format!("C07:transducer-not-at-pose-of-grid:{}", pose_line.replace(' ', "_")),
                            format!("transducer {i} axis {a}: stored {} but pose(grid) = {ideal}", t[a]),
                            vec![pose_line.clone()],
                        );
                        break 'outer;
                    }
                }
            }
            // oracle: the device carries the sound speed it was given
            if c.to_bits() != pose.c.to_bits() {
                self.viol(
                    format!("C07:device-sound-speed:dev{k}of{}:{}", poses.len(), pose_line.replace(' ', "_")),
                    format!("device {k} was given sound speed {} mm/s but holds {c}", pose.c),
                    vec![pose_line.clone()],
                );
            }
            infos.push(Info { pose: pose.clone(), pose_line, r, trs, c: c as f64 });
        }
        // every third rig is a *used* one: long STMs have been written to both segments before (the shared
        // write page is left beyond page 0, every page of the memory holds old data; every other time the one on
        // S0 had 8 foci per pattern, so the foci-per-pattern register must go *down* for the STMs under test).
        // What is played for the STM under test must not depend on that. The model does not see this history: it
        // computes from the records.
        self.opened += 1;
        let used = self.opened % 3 == 0;
        if used {
            let hi = &infos[home];
            let gp = Self::to_global_raw(&hi.trs, &hi.r, [30.0, 40.0, 150.0]);
            let long = |k: usize| -> Vec<ControlPoints<1>> {
                (0..k).map(|j| ControlPoints::new([ControlPoint::new(Point3::new(gp[0] + (j % 50) as f32, gp[1], gp[2]), Phase((j % 251) as u8))], EmitIntensity(0x80))).collect()
            };
            let long8 = |k: usize| -> Vec<ControlPoints<8>> {
                (0..k)
                    .map(|j| {
                        let mut cps = [ControlPoint::default(); 8];
                        for (i, cp) in cps.iter_mut().enumerate() {
                            *cp = ControlPoint::new(Point3::new(gp[0] + (j % 50) as f32, gp[1] + 3.0 * i as f32, gp[2]), Phase((j * 7 + i * 31) as u8));
                        }
                        ControlPoints::new(cps, EmitIntensity(0x80))
                    })
                    .collect()
            };
            let eight = (self.opened / 3) % 2 == 0;
            let r1 = if eight { w.send_dg(FociSTM::new(long8(530), to_div(5120)), usize::MAX).result } else { w.send_dg(FociSTM::new(long(4200), to_div(5120)), usize::MAX).result };
            let r2 = w.send_dg(
                autd3_driver::datagram::WithSegment { inner: FociSTM::new(long(9000), to_div(5120)), segment: Segment::S1, transition_mode: None },
                usize::MAX,
            )
            .result;
            self.out.count(&format!("used-device(invisible):{}:{r1}/{r2}", if eight { "8-foci-then-long" } else { "long-then-long" }));
        }
        Dev { w, infos, home, used }
    }

    fn to_global_raw(trs: &[[f64; 3]], r: &[[f64; 3]; 3], lp: [f64; 3]) -> [f32; 3] {
        let t0 = trs[0];
        let mut gp = [0f32; 3];
        for a in 0..3 {
            gp[a] = (t0[a] + r[a][0] * lp[0] + r[a][1] * lp[1] + r[a][2] * lp[2]) as f32;
        }
        gp
    }

    /// global f32 point of a point (mm) local to the rig's home device
    fn to_global(d: &Dev, lp: [f64; 3]) -> [f32; 3] {
        Self::to_global_raw(&d.h().trs, &d.h().r, lp)
    }

    fn dist(d: &Info, gp: [f32; 3], i: usize) -> f64 {
        ((gp[0] as f64 - d.trs[i][0]).powi(2) + (gp[1] as f64 - d.trs[i][1]).powi(2) + (gp[2] as f64 - d.trs[i][2]).powi(2)).sqrt()
    }

    /// Focus gain at `gp`; returns, per device, the phase bytes with the offset removed
    fn focus(&mut self, d: &mut Dev, gp: [f32; 3], off: u8, intensity: u8, tag: &str) -> Option<Vec<Vec<u8>>> {
        let (res, fds) = match guarded(|| send_focus(&mut d.w, gp, off, intensity)) {
            Ok(x) => x,
            Err(m) => (format!("panic:{}", m.replace('\n', " ")), vec![]),
        };
        let line = format!("focus {} {off} {intensity}", hx3(gp));
        if res != "ok" {
            self.out.line(&format!("{line} -"), &res);
            let mut replay = d.head(0);
            replay.push(line);
            self.viol(format!("C07:focus-send-failed:{}:{}", d.key(0), hx3(gp).replace(' ', "_")), res, replay);
            return None;
        }
        for (k, fd) in fds.iter().enumerate() {
            self.select(d, k);
            let info = &d.infos[k];
            self.out.line(&format!("{line} {}", drives_hex(fd)), "ok");
            if self.out.samples.is_empty() {
                self.out.sample(format!("{} | {line} {}… (249 × phase,intensity) -> ok", info.pose_line, &drives_hex(fd)[..24]));
            }
            let key_tail = format!("{}:{}", d.key(k), hx3(gp).replace(' ', "_"));
            let mut replay = d.head(k);
            replay.push(line.clone());
            let mut near_tie = 0;
            for i in 0..NUM_TR {
                let dd = Self::dist(info, gp, i);
                let s = 256.0 * FREQ * dd / info.c;
                let arr = circ(fd[i].0 as f64 - off as f64 + s);
                let ex = arr.abs() - 0.5;
                if ex > self.max_focus_excess {
                    self.max_focus_excess = ex;
                }
                if (s.fract() - 0.5).abs() < 0.01 {
                    near_tie += 1;
                }
                if arr.abs() > 0.55 {
                    self.viol(
                        format!("C07:focus-not-cancelling:{tag}:{key_tail}"),
                        format!("Focus gain, device {k}, transducer {i}: phase byte {} (offset {off}) + propagation {s:.3} steps arrives {arr:.3} steps off phase zero (> 0.55)", fd[i].0),
                        replay.clone(),
                    );
                    break;
                }
                if fd[i].1 != intensity {
                    self.viol(
                        format!("C07:focus-intensity:{tag}:{key_tail}"),
                        format!("Focus gain, device {k}, transducer {i}: intensity {} but {intensity} requested", fd[i].1),
                        replay.clone(),
                    );
                    break;
                }
            }
            self.out.count_n("focus:contributions-within-0.01-of-a-rounding-tie", near_tie);
        }
        Some(fds.iter().map(|fd| fd.iter().map(|x| x.0.wrapping_sub(off)).collect()).collect())
    }

    /// FociSTM of the given patterns (global points + absolute phase offsets); `focus_ref[k]` = per device the Focus
    /// gain phases (offset removed) at pattern k's single focus, when available; `only`: the patterns whose lines
    /// are emitted and judged (all when `None`)
    fn stm(&mut self, d: &mut Dev, pats: &[Pattern], intens: &[u8], focus_ref: &[Option<Vec<Vec<u8>>>], tag: &str, only: Option<&[usize]>) {
        if d.used {
            // leave the shared STM write page beyond page 0 (a Focus gain sent in between resets it): 4200 foci to S1
            let gp = Self::to_global_raw(&d.h().trs, &d.h().r, [10.0, 20.0, 180.0]);
            let long: Vec<ControlPoints<1>> =
                (0..4200).map(|j| ControlPoints::new([ControlPoint::new(Point3::new(gp[0], gp[1] + (j % 40) as f32, gp[2]), Phase((j % 241) as u8))], EmitIntensity(0x40))).collect();
            let r = d.w.send_dg(autd3_driver::datagram::WithSegment { inner: FociSTM::new(long, to_div(5120)), segment: Segment::S1, transition_mode: None }, usize::MAX).result;
            self.out.count(&format!("stm-on-used-device(invisible):{r}"));
        }
        let n = pats[0].len();
        let sts = match guarded(|| send_stm(&mut d.w, pats, intens)) {
            Ok(s) => s,
            Err(m) => Err(format!("panic:{}", m.replace('\n', " "))),
        };
        let desc: Vec<String> = pats.iter().map(|p| p.iter().map(|(g, o)| format!("{}+{o}", hx3(*g).replace(' ', ","))).collect::<Vec<_>>().join(";")).collect();
        // long STMs are named by their first and last pattern
        let desc_key = if desc.len() <= 2 { desc.join("|") } else { format!("{}|..{}..|{}", desc[0], desc.len(), desc[desc.len() - 1]) };
        let sts = match sts {
            Ok(s) => s,
            Err(e) => {
                self.out.line(&format!("stm-failed {desc_key}"), &e);
                let mut replay = d.head(0);
                replay.push(format!("stm {}", desc.join(" ")));
                self.viol(format!("C07:stm-send-failed:{}:{desc_key}", d.key(0)), e, replay);
                return;
            }
        };
        self.out.count(&format!("foci-per-pattern:{n}"));
        if d.w.frames.len() > d.infos.len() {
            self.out.count(&format!("stm-frames:{}", d.w.frames.len() / d.infos.len()));
        }
        for (dk, st) in sts.iter().enumerate() {
            self.select(d, dk);
            let info = &d.infos[dk];
            let key_tail = format!("{}:{desc_key}", d.key(dk));
            self.out.line(&format!("ss {}", st.cw), "ok");
            for (clause, text) in &st.notes {
                let mut replay = d.head(dk);
                replay.push(format!("stm {desc_key}"));
                self.viol(format!("C07:{clause}:{tag}:n{n}:{key_tail}"), text.clone(), replay);
            }
            // oracle: the sound-speed word on the wire is this device's (c / 1000 * 64 within one unit)
            if (st.cw as f64 - info.c * 0.064).abs() > 1.0 {
                let mut replay = d.head(dk);
                replay.push(format!("ss {}", st.cw));
                self.viol(
                    format!("C07:sound-speed-word:{}", d.key(dk)),
                    format!("device {dk} has sound speed {} mm/s but its FociSTM header carries the word {} ({:.1} mm/s)", info.c, st.cw, st.cw as f64 / 0.064),
                    replay,
                );
            }
            for (k, pat) in pats.iter().enumerate() {
                if only.is_some_and(|o| !o.contains(&k)) {
                    continue;
                }
                let words = &st.words[k * n..(k + 1) * n];
                for (j, (gp, _)) in pat.iter().enumerate() {
                    self.out.line(&format!("rec {} {:016x}", hx3(*gp), words[j]), "ok");
                }
                let io: Vec<String> = words.iter().map(|w| ((w >> 54) & 0xFF).to_string()).collect();
                let offs: Vec<String> = pat.iter().map(|(_, o)| o.to_string()).collect();
                self.out.line(&format!("io {} {}", intens[k], offs.join(" ")), &io.join(" "));
                let fwline = format!("fw {} {}", st.cw, words.iter().map(|w| format!("{w:016x}")).collect::<Vec<_>>().join(" "));
                let mut replay = d.head(dk);
                replay.push(format!("stm pattern {k} of {}: {}", pats.len(), desc[k]));
                replay.push(fwline.clone());
                match &st.drives[k] {
                    Err(m) => {
                        self.out.line(&fwline, "panic");
                        self.viol(format!("C07:panic:{}", panic_key(m)), format!("drives_at panicked: {m}"), replay);
                        continue;
                    }
                    Ok(dr) => {
                        self.out.line(&fwline, &drives_hex(dr));
                        if n != 2 || tag.starts_with("random") {
                            let h = drives_hex(dr);
                            self.out.sample(format!("{} | io {} {} -> {} | {} -> {}… (249 × phase,intensity)", info.pose_line, intens[k], offs.join(" "), io.join(" "), fwline, &h[..24]));
                        }
                        self.out.case(Some(fnv64(format!("{tag}:{key_tail}:{k}").as_bytes())));
                        // (d) intensity
                        if let Some(i) = dr.iter().position(|x| x.1 != intens[k]) {
                            self.viol(
                                format!("C07:stm-intensity:{tag}:n{n}:{key_tail}"),
                                format!("FociSTM pattern {k}, device {dk}, transducer {i}: intensity {} but {} requested", dr[i].1, intens[k]),
                                replay.clone(),
                            );
                        }
                        if n == 1 {
                            // (b) against the Focus gain at the same point
                            if let Some(Some(fr)) = focus_ref.get(k) {
                                let fr = &fr[dk];
                                let (gp, _) = pat[0];
                                for i in 0..NUM_TR {
                                    let dd = Self::dist(info, gp, i);
                                    if dd > 1250.0 {
                                        self.out.count("fw-minus-focus:beyond-1250mm(skipped)");
                                        continue;
                                    }
                                    let diff = circ(dr[i].0 as f64 - fr[i] as f64) as i32;
                                    self.out.count(&format!("fw-minus-focus:{diff:+}"));
                                    if !(-4..=6).contains(&diff) {
                                        self.viol(
                                            format!("C07:fw-vs-focus:{tag}:{key_tail}"),
                                            format!(
                                                "device {dk}, transducer {i} ({dd:.1} mm from the focus): single-focus FociSTM phase {} but Focus gain phase {} (difference {diff}, allowed -4..=6)",
                                                dr[i].0, fr[i]
                                            ),
                                            replay.clone(),
                                        );
                                        break;
                                    }
                                }
                            }
                        }
                        // (c) argument of the phasor sum
                        let mut worst: Option<(usize, f64, f64, f64)> = None;
                        for i in 0..NUM_TR {
                            let (mut re, mut im) = (0f64, 0f64);
                            let mut far = false;
                            for (gp, o) in pat.iter() {
                                let dd = Self::dist(info, *gp, i);
                                far |= dd > 1250.0;
                                let s = 256.0 * FREQ * dd / info.c + (o.wrapping_sub(pat[0].1)) as f64;
                                let th = s * std::f64::consts::TAU / 256.0;
                                re += th.cos();
                                im += th.sin();
                            }
                            if far && d.infos.len() > 1 {
                                // the allowance is stated for foci within 1250 mm of the transducer (props.d assumptions);
                                // only the other devices of a rig can be farther away
                                self.out.count("multi:beyond-1250mm(skipped)");
                                continue;
                            }
                            let rho = (re * re + im * im).sqrt() / n as f64;
                            if rho < 0.3 {
                                self.out.count("multi:phasor-sum-near-zero(skipped)");
                                continue;
                            }
                            let want = -im.atan2(re) * 256.0 / std::f64::consts::TAU;
                            let e = circ(dr[i].0 as f64 - want).abs();
                            let tol = 2.5 + 4.0 / rho;
                            if n > 1 && e / tol > self.max_multi_ratio {
                                self.max_multi_ratio = e / tol;
                            }
                            if e > tol && worst.map(|w| e - tol > w.1 - w.3).unwrap_or(true) {
                                worst = Some((i, e, rho, tol));
                            }
                        }
                        if let Some((i, e, rho, tol)) = worst {
                            self.viol(
                                format!("C07:phasor-sum:{tag}:n{n}:{key_tail}"),
                                format!("FociSTM pattern {k} ({n} foci), device {dk}, transducer {i}: phase {} is {e:.2} steps from -arg of the phasor sum (|sum|/N = {rho:.3}, allowed {tol:.2})", dr[i].0),
                                replay.clone(),
                            );
                        }
                    }
                }
            }
        }
    }

    /// one single-focus point: Focus gain, then a 2-pattern FociSTM<1> (the point and a companion)
    fn single(&mut self, d: &mut Dev, lp: [f64; 3], lp2: [f64; 3], off: u8, intensity: u8, tag: &str) {
        let gp = Self::to_global(d, lp);
        let gp2 = Self::to_global(d, lp2);
        let dist0 = (lp[0] * lp[0] + lp[1] * lp[1] + lp[2] * lp[2]).sqrt();
        let band = if dist0 < 1.0 { "<1mm" } else if dist0 < 50.0 { "<50mm" } else if dist0 < 300.0 { "<300mm" } else if dist0 < 900.0 { "<900mm" } else { "<=1000mm" };
        self.out.count(&format!("focus-distance:{band}"));
        let f1 = self.focus(d, gp, off, intensity, tag);
        let f2 = self.focus(d, gp2, 0, 255, tag);
        self.stm(d, &[vec![(gp, off)], vec![(gp2, 0)]], &[intensity, 255 - intensity / 2], &[f1, f2], tag, None);
    }

    /// patterns beyond the first frame: `np` patterns of `n` foci along a line in front of the home device (two
    /// frames: 74 + .. records of N = 1, 37 + .. patterns of N = 2); the first and last pattern and the two at the
    /// frame boundary are judged (every pattern is transformed by a later `pack` call with the same `device.inv()`)
    fn long(&mut self, d: &mut Dev, n: usize, np: usize, rng: &mut Rng, tag: &str) {
        let base = rand_local(rng, 600.0);
        let step = [rf(rng, -2.0, 2.0), rf(rng, -2.0, 2.0), rf(rng, -2.0, 2.0)];
        let pats: Vec<Pattern> = (0..np)
            .map(|k| {
                (0..n)
                    .map(|j| {
                        let t = k as f64 + 0.37 * j as f64;
                        (Self::to_global(d, [base[0] + step[0] * t, base[1] + step[1] * t, base[2] + step[2] * t + 11.0 * j as f64]), (k * 3 + j * 64) as u8)
                    })
                    .collect()
            })
            .collect();
        let intens: Vec<u8> = (0..np).map(|k| (255 - k) as u8).collect();
        let per_first = (622 - 24) / (8 * n);
        let only = [0, per_first - 1, per_first, np - 1];
        self.out.count(&format!("multi-frame-stm(invisible):n{n}x{np}"));
        self.stm(d, &pats, &intens, &[], tag, Some(&only));
    }
}

fn rand_local(rng: &mut Rng, rmax: f64) -> [f64; 3] {
    // uniform direction, radius with extra weight near 0 and near rmax
    loop {
        let v = [rf(rng, -1.0, 1.0), rf(rng, -1.0, 1.0), rf(rng, -1.0, 1.0)];
        let n = (v[0] * v[0] + v[1] * v[1] + v[2] * v[2]).sqrt();
        if n < 1e-3 || n > 1.0 {
            continue;
        }
        let r = match rng.below(6) {
            0 => rmax,
            1 => rf(rng, 0.0, 30.0),
            _ => rf(rng, 0.0, rmax),
        };
        return [v[0] / n * r, v[1] / n * r, v[2] / n * r];
    }
}

fn rand_pose(rng: &mut Rng) -> Pose {
    let (tmax, kind_t) = match rng.below(4) {
        0 => (0.0, "origin"),
        1 => (300.0, "t<0.3m"),
        2 => (2000.0, "t<2m"),
        _ => (5000.0, "t<5m"),
    };
    let pos = [rf(rng, -tmax, tmax) as f32, rf(rng, -tmax, tmax) as f32, rf(rng, -tmax, tmax) as f32];
    let h = std::f32::consts::FRAC_1_SQRT_2;
    let (quat, kind_r): ([f32; 4], &'static str) = match rng.below(8) {
        0 => ([1.0, 0.0, 0.0, 0.0], "identity"),
        1 => (*rng.pick(&[[h, h, 0.0, 0.0], [h, 0.0, h, 0.0], [h, 0.0, 0.0, h], [h, -h, 0.0, 0.0], [h, 0.0, -h, 0.0], [h, 0.0, 0.0, -h]]), "quarter-turn"),
        2 => (*rng.pick(&[[0.0, 1.0, 0.0, 0.0], [0.0, 0.0, 1.0, 0.0], [0.0, 0.0, 0.0, 1.0], [0.5, 0.5, 0.5, 0.5], [-0.5, 0.5, -0.5, 0.5]]), "half-turn/120"),
        3 => ([1.0, rf(rng, -0.01, 0.01) as f32, rf(rng, -0.01, 0.01) as f32, rf(rng, -0.01, 0.01) as f32], "small-angle"),
        4 => ([rf(rng, -3.0, 3.0) as f32, rf(rng, -3.0, 3.0) as f32, rf(rng, -3.0, 3.0) as f32, rf(rng, -3.0, 3.0) as f32], "unnormalised"),
        _ => ([rf(rng, -1.0, 1.0) as f32, rf(rng, -1.0, 1.0) as f32, rf(rng, -1.0, 1.0) as f32, rf(rng, -1.0, 1.0) as f32], "random"),
    };
    let quat = if quat.iter().map(|x| x * x).sum::<f32>() < 1e-3 { [1.0, 0.0, 0.0, 0.0] } else { quat };
    let c = match rng.below(8) {
        0 => 300e3,
        1 => 400e3,
        2 => 340e3,
        3 => {
            // sound-speed word at a rounding boundary: c·0.064 = k + 1/2 (± a few ulps)
            let k = rng.range(19200, 25599) as f64;
            let c = ((k + 0.5) / 0.064) as f32;
            f32::from_bits((c.to_bits() as i64 + rng.range(0, 6) as i64 - 3) as u32)
        }
        _ => rf(rng, 300e3, 400e3) as f32,
    };
    let kind: &'static str = Box::leak(format!("{kind_r}/{kind_t}").into_boxed_str());
    Pose { pos, quat, c, kind }
}

pub fn run(args: &Args) {
    let mut ctx = Ctx { out: Out::new(&args.out), max_multi_ratio: 0.0, max_focus_excess: 0.0, per_kind: Default::default(), opened: 0 };
    let thorough = args.tier == "thorough";
    let mut rng = Rng::new(args.seed ^ 0xC07);
    let h = std::f32::consts::FRAC_1_SQRT_2;

    // ---- witnesses first: poses and points that expose a mirrored axis, a transform applied the wrong
    // way round, a wrong unit or sign (asymmetric points, every axis distinguished)
    let wit_poses = [
        Pose { pos: [0.0, 0.0, 0.0], quat: [1.0, 0.0, 0.0, 0.0], c: 340e3, kind: "witness" },
        Pose { pos: [100.0, -200.0, 300.0], quat: [1.0, 0.0, 0.0, 0.0], c: 340e3, kind: "witness" },
        Pose { pos: [0.0, 0.0, 0.0], quat: [h, 0.0, 0.0, h], c: 340e3, kind: "witness" },
        Pose { pos: [50.0, 60.0, -70.0], quat: [h, h, 0.0, 0.0], c: 346e3, kind: "witness" },
        Pose { pos: [-1500.0, 2500.0, 800.0], quat: [0.3, -0.5, 0.7, 0.4], c: 331.5e3, kind: "witness" },
        Pose { pos: [4000.0, -4000.0, 4000.0], quat: [0.0, 1.0, 0.0, 0.0], c: 300e3, kind: "witness" },
        Pose { pos: [10.0, 20.0, 30.0], quat: [2.0, 2.0, 2.0, 2.0], c: 400e3, kind: "witness" },
    ];
    let wit_points: [[f64; 3]; 9] = [
        [0.0, 0.0, 150.0],
        [86.36, 66.04, 150.0],
        [0.0, 0.0, 0.0],
        [10.16, 0.0, 0.0],
        [300.0, -200.0, 500.0],
        [-450.0, 120.0, -80.0],
        [172.72, 132.08, 1.0],
        [577.0, 577.0, 577.0],
        [0.0, -1000.0, 0.0],
    ];
    for (pi, pose) in wit_poses.iter().enumerate() {
        let mut d = ctx.open(std::slice::from_ref(pose), 0);
        for (k, lp) in wit_points.iter().enumerate() {
            let lp2 = wit_points[(k + 1) % wit_points.len()];
            ctx.single(&mut d, *lp, lp2, (17 * k) as u8, 255 - (k as u8), &format!("witness{pi}.{k}"));
        }
        // multi-focus witnesses: equal foci, opposite phasors, offsets relative to the first focus
        let a = Ctx::to_global(&d, [30.0, 40.0, 200.0]);
        let b = Ctx::to_global(&d, [-60.0, 10.0, 180.0]);
        ctx.stm(&mut d, &[vec![(a, 0), (a, 0)], vec![(a, 77), (a, 77)]], &[200, 201], &[], "witness-equal-foci", None);
        ctx.stm(&mut d, &[vec![(a, 0), (a, 128)], vec![(a, 10), (b, 10)]], &[1, 2], &[], "witness-opposite", None);
        ctx.stm(&mut d, &[vec![(a, 40), (b, 100), (a, 200)], vec![(b, 255), (a, 0), (b, 1)]], &[0, 255], &[], "witness-offsets", None);
        let p8: Pattern = (0..8).map(|j| (Ctx::to_global(&d, [20.0 * j as f64 - 70.0, 15.0 * j as f64 - 50.0, 150.0 + 5.0 * j as f64]), (31 * j) as u8)).collect();
        let q8: Pattern = (0..8).map(|j| (a, (32 * j) as u8)).collect();
        ctx.stm(&mut d, &[p8, q8], &[128, 64], &[], "witness-8", None);
        // fewer foci per pattern than the STM before on the same segment (8 -> 1 -> 2 -> 1)
        ctx.single(&mut d, wit_points[1], wit_points[4], 33, 250, &format!("witness{pi}.after-8"));
        ctx.stm(&mut d, &[vec![(a, 5), (b, 250)], vec![(b, 0), (a, 0)]], &[9, 10], &[], "witness-2-after-1", None);
        ctx.single(&mut d, wit_points[6], wit_points[0], 0, 255, &format!("witness{pi}.after-2"));
    }
    // rigs (several devices in one geometry, different poses and sound speeds): witnesses with stable poses.
    // Two devices side by side at different sound speeds; three devices, the middle one turned and slower; the
    // home device (in whose frame the points lie) is the last one in the second rig.
    let wit_rigs: [(Vec<Pose>, usize); 3] = [
        (
            vec![
                Pose { pos: [0.0, 0.0, 0.0], quat: [1.0, 0.0, 0.0, 0.0], c: 340e3, kind: "rig-witness" },
                Pose { pos: [200.0, 0.0, 0.0], quat: [1.0, 0.0, 0.0, 0.0], c: 400e3, kind: "rig-witness" },
            ],
            0,
        ),
        (
            vec![
                Pose { pos: [-300.0, 50.0, 20.0], quat: [h, 0.0, h, 0.0], c: 300e3, kind: "rig-witness" },
                Pose { pos: [0.0, 0.0, 0.0], quat: [0.3, -0.5, 0.7, 0.4], c: 331.5e3, kind: "rig-witness" },
                Pose { pos: [250.0, -100.0, 60.0], quat: [h, 0.0, 0.0, h], c: 372e3, kind: "rig-witness" },
            ],
            2,
        ),
        (
            vec![
                Pose { pos: [1000.0, 2000.0, -500.0], quat: [0.0, 1.0, 0.0, 0.0], c: 355e3, kind: "rig-witness" },
                Pose { pos: [1000.0, 2000.0, -100.0], quat: [2.0, 2.0, 2.0, 2.0], c: 310e3, kind: "rig-witness" },
            ],
            1,
        ),
    ];
    for (ri, (poses, home)) in wit_rigs.iter().enumerate() {
        let mut d = ctx.open(poses, *home);
        for (k, lp) in wit_points.iter().enumerate().filter(|(k, _)| k % 2 == 0 || thorough) {
            let lp2 = wit_points[(k + 1) % wit_points.len()];
            ctx.single(&mut d, *lp, lp2, (17 * k) as u8, 255 - (k as u8), &format!("rig-witness{ri}.{k}"));
        }
        let a = Ctx::to_global(&d, [30.0, 40.0, 200.0]);
        let b = Ctx::to_global(&d, [-60.0, 10.0, 180.0]);
        ctx.stm(&mut d, &[vec![(a, 40), (b, 100), (a, 200)], vec![(b, 255), (a, 0), (b, 1)]], &[0, 255], &[], "rig-witness-offsets", None);
        let p8: Pattern = (0..8).map(|j| (Ctx::to_global(&d, [20.0 * j as f64 - 70.0, 15.0 * j as f64 - 50.0, 150.0 + 5.0 * j as f64]), (31 * j) as u8)).collect();
        let q8: Pattern = (0..8).map(|j| (a, (32 * j) as u8)).collect();
        ctx.stm(&mut d, &[p8, q8], &[128, 64], &[], "rig-witness-8", None);
        ctx.single(&mut d, wit_points[1], wit_points[4], 33, 250, &format!("rig-witness{ri}.after-8"));
        ctx.long(&mut d, 1 + ri % 2, 80 / (1 + ri % 2), &mut Rng::new(0xC07 + ri as u64), "rig-witness-long");
    }
    // zero sound speed: the firmware divides by the word (a panic is the answer on both sides)
    {
        let pose = Pose { pos: [0.0; 3], quat: [1.0, 0.0, 0.0, 0.0], c: 340e3, kind: "zero-sound-speed" };
        let mut w = World::new(1, 0);
        w.geo = make_geo(std::slice::from_ref(&pose));
        w.geo.set_sound_speed(0.0);
        if let Ok(sts) = send_stm(&mut w, &[vec![([0.0, 0.0, 150.0], 0)], vec![([0.0, 0.0, 150.0], 0)]], &[255, 255]) {
            let st = &sts[0];
            let fwline = format!("fw {} {:016x}", st.cw, st.words[0]);
            match &st.drives[0] {
                Ok(dr) => ctx.out.line(&fwline, &drives_hex(dr)),
                Err(_) => ctx.out.line(&fwline, "panic"),
            }
            ctx.out.case(None);
            ctx.out.count("zero-sound-speed-word");
        }
    }

    // ---- grid: axis-aligned poses × sound speeds × lattice of local points
    let grid_quats: [[f32; 4]; 5] = [[1.0, 0.0, 0.0, 0.0], [h, h, 0.0, 0.0], [h, 0.0, h, 0.0], [h, 0.0, 0.0, h], [0.0, 0.0, 1.0, 0.0]];
    let grid_c: &[f32] = if thorough { &[300e3, 320e3, 340e3, 360e3, 380e3, 400e3] } else { &[300e3, 340e3, 400e3] };
    let lattice: Vec<[f64; 3]> = {
        let vals: &[f64] = if thorough { &[-550.0, -200.0, 0.0, 200.0, 550.0] } else { &[-500.0, 0.0, 500.0] };
        let mut v = vec![];
        for &x in vals {
            for &y in vals {
                for &z in vals {
                    v.push([x, y, z + 0.0125]);
                }
            }
        }
        v
    };
    for (qi, q) in grid_quats.iter().enumerate() {
        for &c in grid_c {
            let pose = Pose { pos: [if qi % 2 == 0 { 0.0 } else { 1000.0 }, 0.0, if qi > 2 { -250.0 } else { 0.0 }], quat: *q, c, kind: "grid" };
            let mut d = ctx.open(std::slice::from_ref(&pose), 0);
            for (k, lp) in lattice.iter().enumerate() {
                if (k + qi) % (if thorough { 2 } else { 3 }) != 0 {
                    continue;
                }
                let lp2 = lattice[(k * 7 + 3) % lattice.len()];
                ctx.single(&mut d, *lp, lp2, 0, 255, "grid");
            }
            ctx.long(&mut d, 1 + qi % 2, 80 / (1 + qi % 2), &mut rng, "grid-long");
        }
    }

    // ---- random poses (every third one a rig of 2–3 devices); per pose: random and boundary points, then
    // multi-focus patterns, then a single focus again (fewer foci per pattern than before), then a two-frame STM
    let nposes = if thorough { 2500 } else { 250 };
    for pi in 0..nposes {
        let pose = rand_pose(&mut rng);
        let mut poses = vec![pose];
        if pi % 3 == 2 {
            // the other devices of the rig: within 400 mm per axis of the first (so that every point stays inside the
            // record range of every device), any rotation, their own sound speed (1 in 4 rigs: all the same)
            let same_c = rng.chance(1, 4);
            for _ in 0..rng.range(1, 2) {
                let mut q = rand_pose(&mut rng);
                for a in 0..3 {
                    q.pos[a] = poses[0].pos[a] + rf(&mut rng, -400.0, 400.0) as f32;
                }
                if same_c {
                    q.c = poses[0].c;
                }
                poses.push(q);
            }
        }
        let home = rng.below(poses.len() as u64) as usize;
        let mut d = ctx.open(&poses, home);
        let npts = if thorough { 6 } else { 5 };
        for k in 0..npts {
            let mut lp = rand_local(&mut rng, 1000.0);
            match k {
                0 => {
                    // fixed-point coordinates next to a rounding boundary: (m + 1/2 ± δ)·0.025 mm
                    for a in 0..3 {
                        let m = (lp[a] / 0.025).floor();
                        let delta = *rng.pick(&[0.0, 0.01, -0.01, 0.1, -0.1, 0.3, -0.3]);
                        lp[a] = (m + 0.5 + delta) * 0.025;
                    }
                    ctx.out.count("point:record-rounding-boundary");
                }
                1 => {
                    // on (or a hair off) a transducer
                    let i = rng.below(NUM_TR as u64) as usize;
                    let (gx, gy) = AUTD3::grid_id(i);
                    let e = *rng.pick(&[0.0, 0.01, 0.5]);
                    lp = [gx as f64 * 10.16 + e, gy as f64 * 10.16 - e, e];
                    ctx.out.count("point:on-a-transducer");
                }
                2 => {
                    // in the array plane / behind the array
                    lp[2] = *rng.pick(&[0.0, -1.0, -300.0]);
                    ctx.out.count("point:in-or-behind-the-array-plane");
                }
                _ => ctx.out.count("point:random"),
            }
            let lp2 = rand_local(&mut rng, 1000.0);
            let roff = rng.below(256) as u8;
            let off = *rng.pick(&[0u8, 0, 1, 128, 255, roff]);
            ctx.single(&mut d, lp, lp2, off, rng.below(256) as u8, "random");
        }
        let mut last_n = 1;
        for _ in 0..(if thorough { 4 } else { 3 }) {
            let n = rng.range(2, 8) as usize;
            last_n = n;
            let mk = |rng: &mut Rng, d: &Dev| -> Pattern {
                let style = rng.below(4);
                let base = rand_local(rng, 1000.0);
                (0..n)
                    .map(|j| {
                        let lp = match style {
                            0 => base, // all foci at one point: |sum| depends on the offsets only
                            1 => [base[0] + rf(rng, -8.0, 8.0), base[1] + rf(rng, -8.0, 8.0), base[2] + rf(rng, -8.0, 8.0)], // a cluster
                            _ => rand_local(rng, 1000.0),
                        };
                        let o = match (style, rng.below(4)) {
                            (0, _) if j > 0 => *rng.pick(&[0u8, 0, 10, 246, 128, 64]),
                            (_, 0) => 0,
                            (_, 1) => *rng.pick(&[1u8, 127, 128, 129, 255]),
                            _ => rng.below(256) as u8,
                        };
                        (Ctx::to_global(d, lp), o)
                    })
                    .collect()
            };
            let p0 = mk(&mut rng, &d);
            let p1 = mk(&mut rng, &d);
            ctx.stm(&mut d, &[p0, p1], &[rng.below(256) as u8, rng.below(256) as u8], &[], "random-multi", None);
        }
        // foci per pattern going down on the same segment: a single focus after the multi-focus STMs
        let (lp, lp2) = (rand_local(&mut rng, 1000.0), rand_local(&mut rng, 1000.0));
        ctx.out.count(&format!("single-after-multi(invisible):{last_n}->1"));
        // first with nothing in between (the Focus gains of `single` rewrite the segment as a gain), then with its references
        let (g1, g2) = (Ctx::to_global(&d, lp2), Ctx::to_global(&d, lp));
        ctx.stm(&mut d, &[vec![(g1, 7)], vec![(g2, 0)]], &[rng.below(256) as u8, 255], &[], "random-1-right-after-multi", None);
        ctx.single(&mut d, lp, lp2, rng.below(256) as u8, rng.below(256) as u8, "random-after-multi");
        // patterns beyond the first frame (every other pose in the quick tier)
        if thorough || pi % 2 == 0 {
            let n = if pi % 4 == 0 { 1 } else { 2 };
            ctx.long(&mut d, n, 80 / n, &mut rng, "random-long");
        }
    }
    ctx.out.notes.push(format!(
        "support (f64): largest |Focus arrival phase| - 0.5 = {:.4} steps; largest multi-focus deviation / allowance = {:.3}",
        ctx.max_focus_excess, ctx.max_multi_ratio
    ));
    ctx.out.count_n("geometries whose devices were moved to their poses by Geometry::reconfigure", RECONFIGURED.load(std::sync::atomic::Ordering::Relaxed));
    ctx.out.finish(
        "foci",
        "a case is one FociSTM pattern read back on all 249 transducers of one device (with its Focus-gain reference when N = 1); distinct by (device index in its rig and pose bits, point bits, offsets, generator); counters marked `(invisible)` are variations the model does not see (device history, foci per pattern going down, later frames); a rig's devices are visible to the model through `rig`/`keep`/`dev` lines",
    );
}
