#!/bin/sh
# process_seed.sh <Cxx> [n]: confirm the seeded change delivered in /tmp/mut/<Cxx>/<n> (default 9) in the worktree it was
# written in (warm target dir), store it as seeded/<Cxx>-<n>, then try the property's own check against it
# (tools/try_seed.py: applies the patch to /repo under work/repo.lock, always undoes it) and record the first-trial outcome.
cd "$(dirname "$0")/.."
P=$1; N=${2:-9}
CONFIRM_WT=/tmp/mut/wt5-$P CONFIRM_TARGET=/tmp/mut/wt5-$P/target python3 tools/confirm_seed.py /tmp/mut/$P/$N $P-$N > work/confirm-$P-$N.txt 2>&1
if [ ! -d seeded/$P-$N ]; then echo "$P-$N NOT CONFIRMED (work/confirm-$P-$N.txt)"; exit 1; fi
python3 tools/try_seed.py seeded/$P-$N > work/try-$P-$N.txt 2>&1
python3 - "$P-$N" <<'PY'
import json, sys, os
d = "/verif/seeded/" + sys.argv[1]
m = json.load(open(d + "/meta.json")); r = json.load(open(d + "/result.json"))
m["first_trial"] = "caught by the checks as they stood when the change arrived (round 5)" if r["caught"] else "MISSED by the property's own check as it stood when the change arrived (round 5)"
m["check_result"] = r
json.dump(m, open(d + "/meta.json", "w"), indent=1); os.remove(d + "/result.json")
print(sys.argv[1], "caught" if r["caught"] else "MISSED", *[v["violation_lines"][:1] for v in r["checks"].values()])
PY
