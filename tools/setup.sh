#!/bin/sh
# Offline setup: regenerate Gen/, build every claimed theorem module and the model driver, build the harness.
set -e
cd "$(dirname "$0")/.."
export CARGO_NET_OFFLINE=true
python3 tools/gen_lean.py
MODS=$(ls tools/props.d/*.json | sed 's|.*/\(C[0-9]*\)\.json|Autd3.Props.\1|' | tr '\n' ' ')
(cd lean && lake build $MODS autd3model)
(cd harness && cargo build --release --offline)
echo setup-done
