#!/bin/sh
# Offline setup: regenerate Gen/, build every theorem module and the model driver, build the harness.
set -e
cd "$(dirname "$0")/.."
export CARGO_NET_OFFLINE=true
python3 tools/gen_lean.py
(cd lean && lake build)
(cd harness && cargo build --release --offline)
echo setup-done
