#!/bin/sh
# run_all.sh [tier] [first]: every claimed check once (optionally starting at property <first>); one summary
# line each (plus VIOLATION lines). Each check holds work/repo.lock, the lock tools/try_seed.py takes while a
# seeded change is applied to /repo, so the two never overlap.
cd "$(dirname "$0")/.."
T=${1:-quick}
F=${2:-C00}
mkdir -p work
for f in tools/props.d/C*.json; do
  p=$(basename $f .json)
  [ "$p" \< "$F" ] && continue
  flock work/repo.lock ./check $p --tier $T 2>&1 | grep -E "^VIOLATION|^  |$T: " | grep -v "^KNOWN" | cut -c1-240
done
