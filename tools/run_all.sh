#!/bin/sh
# run_all.sh [tier]: every claimed check once; one summary line each (plus VIOLATION lines)
cd "$(dirname "$0")/.."
T=${1:-quick}
for f in tools/props.d/C*.json; do
  p=$(basename $f .json)
  ./check $p --tier $T 2>&1 | grep -E "^VIOLATION|^  |$T: " | grep -v "^KNOWN" | cut -c1-240
done
