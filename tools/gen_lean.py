#!/usr/bin/env python3
"""Translator: regenerates lean/Autd3/Gen/*.lean from the repo's working tree (DESIGN 2.2a).
Runs every plug-in tools/gen.d/*.py (`generate(repo, emit)`). A file is rewritten only when its
content changed so that lake's incremental build stays cheap. Exits non-zero with
`translator-unsupported: …` on anything outside a plug-in's supported subset (fails closed)."""
import glob
import importlib.util
import os
import sys

VERIF = os.path.dirname(os.path.dirname(os.path.abspath(__file__)))
GEN = os.path.join(VERIF, "lean", "Autd3", "Gen")
REPO = os.environ.get("VERIF_REPO", "/repo")


class Unsupported(Exception):
    pass


def emit(name, body):
    os.makedirs(GEN, exist_ok=True)
    p = os.path.join(GEN, name)
    old = open(p).read() if os.path.exists(p) else None
    if old != body:
        open(p, "w").write(body)


def main():
    sys.path.insert(0, os.path.join(VERIF, "tools"))
    rc = 0
    for path in sorted(glob.glob(os.path.join(VERIF, "tools", "gen.d", "*.py"))):
        spec = importlib.util.spec_from_file_location(os.path.basename(path)[:-3], path)
        mod = importlib.util.module_from_spec(spec)
        try:
            spec.loader.exec_module(mod)
            mod.generate(REPO, emit)
        except Exception as e:  # fail closed
            print(f"translator-unsupported: {os.path.basename(path)}: {type(e).__name__}: {e}")
            rc = 1
    return rc


if __name__ == "__main__":
    sys.exit(main())
