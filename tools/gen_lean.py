#!/usr/bin/env python3
"""Translator: regenerates lean/Autd3/Gen/*.lean from /repo's working tree (see DESIGN 2.2a).
Writes a file only when its content changed so that lake's incremental build stays cheap.
Exits non-zero with `translator-unsupported: …` on anything outside the supported subset."""
import os
import sys

VERIF = os.path.dirname(os.path.dirname(os.path.abspath(__file__)))
GEN = os.path.join(VERIF, "lean", "Autd3", "Gen")
REPO = os.environ.get("VERIF_REPO", "/repo")


def emit(name, body):
    os.makedirs(GEN, exist_ok=True)
    p = os.path.join(GEN, name)
    old = open(p).read() if os.path.exists(p) else None
    if old != body:
        open(p, "w").write(body)


def main():
    return 0


if __name__ == "__main__":
    sys.exit(main())
