#!/usr/bin/env python3
"""mk_round_table.py <n>: markdown table of the seeded changes numbered <n> (seeded/Cxx-<n>/meta.json): file touched,
first-trial outcome, current outcome of the recorded check run. Used for DESIGN 0.10."""
import glob, json, os, re, sys
n = sys.argv[1]
print("| change | where | first trial | recorded run |")
print("|---|---|---|---|")
for d in sorted(glob.glob(f"/verif/seeded/C*-{n}")):
    m = json.load(open(d + "/meta.json"))
    files = sorted(set(re.findall(r"^\+\+\+ b/(\S+)", open(d + "/patch.diff").read(), re.M)))
    ft = m.get("first_trial", "")
    ft = "caught" if ft.startswith("caught") else "**missed**"
    cr = m.get("check_result", {})
    outs = []
    for p, v in cr.get("checks", {}).items():
        if v["exit"] != 0:
            kind = "no failing input" if any("no-failing-input-found" in l for l in v["violation_lines"]) else "replay"
            outs.append(f"{p}: caught ({kind})")
        else:
            outs.append(f"{p}: not caught")
    print(f"| `{os.path.basename(d)}` | {', '.join(files)} | {ft} | {'; '.join(outs)} |")
