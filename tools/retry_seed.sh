#!/bin/sh
# retry_seed.sh <Cxx-n> [fresh]: run the property's check against a stored seeded change again (tools/try_seed.py) and
# record the outcome in its meta.json. With `fresh` the outcome replaces a first trial that was void (e.g. the harness
# did not build at that moment); otherwise "first_trial" is kept and the new outcome is the result after strengthening.
cd "$(dirname "$0")/.."
python3 tools/try_seed.py seeded/$1 > work/try-$1.txt 2>&1
python3 - "$1" "${2:-}" <<'PY'
import json, sys, os
d = "/verif/seeded/" + sys.argv[1]
m = json.load(open(d + "/meta.json")); r = json.load(open(d + "/result.json"))
if sys.argv[2] == "fresh":
    m["first_trial"] = "caught by the checks as they stood when the change arrived (round 5)" if r["caught"] else "MISSED by the property's own check as it stood when the change arrived (round 5)"
m["check_result"] = r
json.dump(m, open(d + "/meta.json", "w"), indent=1); os.remove(d + "/result.json")
print(sys.argv[1], "caught" if r["caught"] else "MISSED", *[v["violation_lines"][:1] for v in r["checks"].values()], *[v["detail"][:1] for v in r["checks"].values()])
PY
