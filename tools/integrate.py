#!/usr/bin/env python3
"""integrate.py <ws>: copy a builder workspace's deliverables (/tmp/b-<ws>/verif) into /verif:
new files are copied; the one-line dispatch edits of harness/src/main.rs and lean/Main.lean and new
known-findings lines are merged; everything else that differs is only listed."""
import filecmp, os, re, shutil, sys
ws = sys.argv[1]
src, dst = f"/tmp/b-{ws}/verif", "/verif"
SKIP = {".lake", "target", "work", "replays", ".git", "Gen", "evidence", "__pycache__"}
def walk(d):
    for root, dirs, files in os.walk(d):
        dirs[:] = [x for x in dirs if x not in SKIP]
        for f in files:
            yield os.path.relpath(os.path.join(root, f), d)
merge = {"harness/src/main.rs", "lean/Main.lean", "known-findings.txt", "harness/Cargo.toml", "harness/Cargo.lock", "MANIFEST.json"}
for rel in sorted(walk(src)):
    a, b = os.path.join(src, rel), os.path.join(dst, rel)
    if rel in merge:
        continue
    if not os.path.exists(b):
        os.makedirs(os.path.dirname(b), exist_ok=True)
        shutil.copy2(a, b)
        print("new     ", rel)
    elif not filecmp.cmp(a, b, shallow=False):
        print("DIFFERS ", rel)
def _kf_key(l):
    m = re.search(r"key=(\S+)", l)
    return m.group(1) if m else None
def new_lines(rel):
    a = open(os.path.join(src, rel)).read().split("\n")
    b = open(os.path.join(dst, rel)).read().split("\n")
    return [l for l in a if l not in b and l.strip()]
# main.rs
p = os.path.join(dst, "harness/src/main.rs"); s = open(p).read()
for l in new_lines("harness/src/main.rs"):
    if re.match(r"\s*mod \w+;", l):
        s = s.replace("\nfn main()", f"{l.strip()}\n\nfn main()", 1).replace(";\n\n" + l.strip(), ";\n" + l.strip())
        print("main.rs  +", l.strip())
    elif "=>" in l and "::run" in l:
        s = s.replace("        s => {\n            eprintln!(\"unknown stream", f"{l}\n        s => {{\n            eprintln!(\"unknown stream", 1)
        print("main.rs  +", l.strip())
    else:
        print("main.rs  ? unmerged:", l)
open(p, "w").write(s)
p = os.path.join(dst, "lean/Main.lean"); s = open(p).read()
for l in new_lines("lean/Main.lean"):
    if l.startswith("import "):
        s = s.replace("\n/-! `autd3model", f"\n{l}\n/-! `autd3model", 1).replace("\n\n" + l + "\n/-!", "\n" + l + "\n/-!")
        print("Main.lean +", l)
    elif l.strip().startswith("| ["):
        s = s.replace("  | [s] =>\n    if s.startsWith \"fw_\"", f"{l}\n  | [s] =>\n    if s.startsWith \"fw_\"", 1)
        print("Main.lean +", l.strip())
    else:
        print("Main.lean ? unmerged:", l)
open(p, "w").write(s)
_have = {_kf_key(l) for l in open(os.path.join(dst, "known-findings.txt")).read().split("\n")} - {None}
for l in new_lines("known-findings.txt"):
    if _kf_key(l) in _have:
        continue  # key already present (the text was edited here since the workspace was made)
    open(os.path.join(dst, "known-findings.txt"), "a").write(l + "\n")
    print("known-findings +", l[:100])
for rel in ("harness/Cargo.toml",):
    ls = [l for l in new_lines(rel) if "/tmp/b-" not in l]
    if ls:
        print("Cargo.toml new lines (merge by hand):", ls)
