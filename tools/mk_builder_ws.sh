#!/bin/sh
# mk_builder_ws.sh <name>: private workspace for building one check:
#   /tmp/b-<name>/repo   = detached git worktree of /repo (HEAD)
#   /tmp/b-<name>/verif  = copy of /verif (committed + working files, with lean build cache, without cargo target)
set -e
N="$1"; W="/tmp/b-$N"
mkdir -p "$W"
git -C /repo worktree add --detach "$W/repo" HEAD >/dev/null 2>&1
rsync -a --exclude harness/target --exclude work --exclude replays --exclude .git /verif/ "$W/verif/"
sed -i "s|\"/repo/|\"$W/repo/|" "$W/verif/harness/Cargo.toml"
echo "workspace $W ready; use: export VERIF_REPO=$W/repo; cd $W/verif"
