#!/usr/bin/env python3
"""confirm_seed.py <seed dir> <name>: confirm a seeded change myself in a scratch worktree (/tmp/confirm-wt):
 (1) with patch.diff applied the repository's whole test suite passes, (2) the demonstration fails with it,
 (3) the demonstration passes without it. On success the seed is copied to /verif/seeded/<name>/ with the
 outcome merged into meta.json. The worktree is reset afterwards (and removed with --remove)."""
import glob, json, os, re, shutil, subprocess, sys
d, name = os.path.abspath(sys.argv[1]), sys.argv[2]
SLOT = os.environ.get("CONFIRM_SLOT", "")   # several confirmations may run side by side, one slot each
WT = os.environ.get("CONFIRM_WT", "/tmp/confirm-wt" + SLOT)           # e.g. the worktree the change was written in (warm target dir)
TARGET = os.environ.get("CONFIRM_TARGET", "/tmp/confirm-target" + SLOT)
env = dict(os.environ, CARGO_NET_OFFLINE="true", CARGO_TARGET_DIR=TARGET)
def sh(cmd, cwd=WT, timeout=3600):
    p = subprocess.run(cmd, cwd=cwd, env=env, shell=isinstance(cmd, str), capture_output=True, text=True, timeout=timeout)
    return p.returncode, p.stdout + p.stderr
if not os.path.exists(WT):
    subprocess.run(["git", "-C", "/repo", "worktree", "add", "--detach", WT, "HEAD"], check=True, capture_output=True)
head = subprocess.run(["git", "-C", "/repo", "rev-parse", "HEAD"], capture_output=True, text=True).stdout.strip()
sh(f"git checkout -q --detach {head} && git checkout -- . && git clean -fdq")
readme = "\n".join(open(f).read() for f in glob.glob(os.path.join(d, "demo", "README*")))
line = next(l for l in readme.split("\n") if "cargo test" in l and "--test" in l)
crate = re.search(r"-p\s+(\S+)", line).group(1)
test = re.search(r"--test\s+([A-Za-z0-9_]+)", line).group(1)
extra = re.search(r"cargo test[^\n]*(--features\s+\S+)", readme)
feat = extra.group(1) if extra else ""
src = os.path.join(d, "demo", test + ".rs")
res = {"head": head[:7], "crate": crate, "demo_test": test}
rc, out = sh(["git", "apply", os.path.join(d, "patch.diff")])
assert rc == 0, out
rc, out = sh("cargo nextest run --workspace --no-fail-fast --tool-config-file pb:/w/lib/nextest.toml --profile pb --test-threads 8 --offline")
summ = re.findall(r"Summary.*", out)
res["suite_with_change"] = summ[-1].strip() if summ else out[-300:]
suite_ok = rc == 0 and "1322 passed" in res["suite_with_change"]
os.makedirs(os.path.join(WT, crate, "tests"), exist_ok=True)
shutil.copy(src, os.path.join(WT, crate, "tests", test + ".rs"))
rc1, out1 = sh(f"cargo test --offline -p {crate} {feat} --test {test}")
res["demo_with_change"] = "FAIL" if rc1 != 0 else "pass"
res["demo_with_change_tail"] = [l for l in out1.split("\n") if "panicked" in l or "test result" in l][:4]
sh(["git", "apply", "-R", os.path.join(d, "patch.diff")])
rc2, out2 = sh(f"cargo test --offline -p {crate} {feat} --test {test}")
res["demo_without_change"] = "pass" if rc2 == 0 else "FAIL"
sh("git checkout -- . && git clean -fdq")
res["confirmed"] = suite_ok and rc1 != 0 and rc2 == 0
print(json.dumps(res, indent=1))
if res["confirmed"]:
    dst = os.path.join("/verif/seeded", name)
    if os.path.exists(dst):
        shutil.rmtree(dst)
    shutil.copytree(d, dst)
    meta = json.load(open(os.path.join(dst, "meta.json")))
    meta["confirmed_by_me"] = res
    if os.path.exists(os.path.join(d, "first_trial.txt")):
        meta["first_trial"] = open(os.path.join(d, "first_trial.txt")).read().strip()
    if os.path.exists(os.path.join(d, "result.json")):
        meta["check_result"] = json.load(open(os.path.join(d, "result.json")))
    json.dump(meta, open(os.path.join(dst, "meta.json"), "w"), indent=1)
    if os.path.exists(os.path.join(dst, "result.json")):
        os.remove(os.path.join(dst, "result.json"))
if "--remove" in sys.argv:
    subprocess.run(["git", "-C", "/repo", "worktree", "remove", "--force", WT])
    shutil.rmtree(TARGET, ignore_errors=True)
