#!/usr/bin/env python3
"""Orchestrator behind ./check: regenerate Gen/*.lean from /repo, build the theorems and the model
driver, audit axioms, build and run the correspondence harness against /repo's working tree, run the
implementation oracles, compare with known findings, write evidence, print VIOLATION lines."""
import fcntl
import hashlib
import json
import os
import re
import subprocess
import sys
import time

VERIF = os.path.dirname(os.path.dirname(os.path.abspath(__file__)))
LEAN = os.path.join(VERIF, "lean")
HARNESS = os.path.join(VERIF, "harness")
WORK = os.path.join(VERIF, "work")
REPO = os.environ.get("VERIF_REPO", "/repo")
ALLOWED_AXIOMS = {"propext", "Classical.choice", "Quot.sound"}
FORBIDDEN = [r"\bsorry\b", r"\badmit\b", r"^\s*axiom\s", r"\bnative_decide\b", r"\bbv_decide\b",
             r"\bimplemented_by\b", r"\bunsafe\s", r"maxHeartbeats\s+0\b", r"\bextern\b"]

sys.path.insert(0, os.path.join(VERIF, "tools"))
from props import PROPS  # noqa: E402


def sh(cmd, cwd=None, env=None, timeout=None, stdin=None, stdout=None):
    e = dict(os.environ)
    e["CARGO_NET_OFFLINE"] = "true"
    if env:
        e.update(env)
    t0 = time.time()
    try:
        p = subprocess.run(cmd, cwd=cwd, env=e, timeout=timeout, stdin=stdin,
                           stdout=stdout if stdout is not None else subprocess.PIPE,
                           stderr=subprocess.STDOUT if stdout is None else subprocess.PIPE, text=True)
    except subprocess.TimeoutExpired:
        return 124, f"timed out after {timeout} s: {' '.join(cmd)[:200]}", time.time() - t0
    out = p.stdout if stdout is None else (p.stderr or "")
    return p.returncode, out or "", time.time() - t0


class Lock:
    def __init__(self, name):
        os.makedirs(WORK, exist_ok=True)
        self.f = open(os.path.join(WORK, name), "w")

    def __enter__(self):
        fcntl.flock(self.f, fcntl.LOCK_EX)

    def __exit__(self, *a):
        fcntl.flock(self.f, fcntl.LOCK_UN)


def strip_comments(src):
    # remove /- ... -/ (nested) and -- comments and string literals (roughly)
    out, i, depth, n = [], 0, 0, len(src)
    while i < n:
        if src.startswith("/-", i):
            depth += 1
            i += 2
        elif depth and src.startswith("-/", i):
            depth -= 1
            i += 2
        elif depth:
            if src[i] == "\n":
                out.append("\n")
            i += 1
        elif src.startswith("--", i):
            while i < n and src[i] != "\n":
                i += 1
        elif src[i] == '"':
            i += 1
            while i < n and src[i] != '"':
                i += 2 if src[i] == "\\" else 1
            i += 1
            out.append('""')
        else:
            out.append(src[i])
            i += 1
    return "".join(out)


def lean_sources():
    res = [os.path.join(LEAN, "Main.lean")]
    for root, _, files in os.walk(os.path.join(LEAN, "Autd3")):
        for f in files:
            if f.endswith(".lean"):
                res.append(os.path.join(root, f))
    return sorted(res)


def forbidden_scan():
    hits = []
    for p in lean_sources():
        body = strip_comments(open(p).read())
        for ln, line in enumerate(body.split("\n"), 1):
            for pat in FORBIDDEN:
                if re.search(pat, line):
                    hits.append(f"{os.path.relpath(p, LEAN)}:{ln}: {pat}")
    return hits


def theorems_of(path):
    """full names of the (non-private) theorems of a Props file, with their line numbers"""
    src = strip_comments(open(path).read())
    ns, res = [], []
    for ln, line in enumerate(src.split("\n"), 1):
        m = re.match(r"\s*namespace\s+(\S+)", line)
        if m:
            ns.append(m.group(1))
            continue
        m = re.match(r"\s*end\s+(\S+)", line)
        if m and ns and ns[-1] == m.group(1):
            ns.pop()
            continue
        m = re.match(r"\s*(?:@\[[^\]]*\]\s*)?(private\s+|protected\s+)?theorem\s+(\S+)", line)
        if m and not (m.group(1) or "").startswith("private"):
            res.append((".".join(ns + [m.group(2)]), ln))
    return res


def first_diff(a_path, b_path, limit=5):
    diffs, n = [], 0
    with open(a_path) as a, open(b_path) as b:
        while True:
            la, lb = a.readline(), b.readline()
            if not la and not lb:
                break
            n += 1
            if la != lb:
                diffs.append((n, la.rstrip("\n")[:400], lb.rstrip("\n")[:400]))
                if len(diffs) >= limit:
                    break
    return diffs, n


def nth_line(path, n):
    with open(path) as f:
        for i, line in enumerate(f, 1):
            if i == n:
                return line.rstrip("\n")
    return ""


def load_known():
    known, fixed = {}, []
    p = os.path.join(VERIF, "known-findings.txt")
    if os.path.exists(p):
        for line in open(p):
            line = line.strip()
            m = re.match(r"known:\s+property=(\S+)\s+key=(\S+)\s+(.*)", line)
            if m:
                known.setdefault(m.group(1), {})[m.group(2)] = m.group(3)
            elif line.startswith("fixed:"):
                fixed.append(line)
    return known, fixed


def main():
    args = sys.argv[1:]
    if not args:
        print("usage: check <Cxx> [--tier quick|thorough] [--replay path]")
        return 2
    pid = args[0]
    tier = os.environ.get("VERIF_TIER", "quick")
    replay_path = None
    i = 1
    while i < len(args):
        if args[i] == "--tier":
            tier = args[i + 1]
            i += 2
        elif args[i] == "--replay":
            replay_path = args[i + 1]
            i += 2
        else:
            i += 1
    if tier not in ("quick", "thorough"):
        tier = "quick"
    try:
        seed = int(os.environ.get("VERIF_SEED", "1"))
    except ValueError:
        seed = 1
    if replay_path:
        rp = json.load(open(replay_path))
        seed, tier = rp.get("seed", seed), rp.get("tier", tier)
    cfg = PROPS[pid]
    t_start = time.time()
    wdir = os.path.join(WORK, pid)
    os.makedirs(wdir, exist_ok=True)
    log = open(os.path.join(wdir, "log.txt"), "w")

    def note(msg):
        log.write(msg + "\n")
        log.flush()

    problems = []      # broken proof obligations / correspondence: (kind, detail)
    timings = {}

    # ---------------------------------------------------------------- 1. translate + build Lean
    props_file = os.path.join(LEAN, "Autd3", "Props", f"{pid}.lean")
    thms = theorems_of(props_file)
    failing_thms = set()
    with Lock("build.lock"):
        rc, out, dt = sh([sys.executable, os.path.join(VERIF, "tools", "gen_lean.py")])
        timings["translate_s"] = round(dt, 2)
        note("== gen_lean ==\n" + out)
        if rc != 0:
            problems.append(("translator", "gen_lean.py failed (translator-unsupported or source missing): " + out.strip()[-600:]))
        rc, out, dt = sh(["lake", "build", f"Autd3.Props.{pid}", "autd3model"], cwd=LEAN, timeout=3000)
        timings["lake_build_s"] = round(dt, 2)
        note("== lake build ==\n" + out)
        lean_ok = rc == 0
        if not lean_ok:
            errs = re.findall(r"error: (\S+\.lean):(\d+):(\d+): (.*)", out)
            in_props = [(int(l), m) for (f, l, c, m) in errs if f.endswith(f"Props/{pid}.lean")]
            other = [(f, l, m) for (f, l, c, m) in errs if not f.endswith(f"Props/{pid}.lean")]
            if other or not in_props:
                failing_thms = {n for n, _ in thms}
                where = ", ".join(sorted({f for f, _, _ in other})) or "build"
                problems.append(("proof", f"lake build failed in {where}: " + "; ".join(m for _, _, m in other[:3])[:500]))
            else:
                for l, m in in_props:
                    owner = None
                    for n, tl in thms:
                        if tl <= l:
                            owner = n
                    failing_thms.add(owner or "?")
                problems.append(("proof", "theorems no longer check: " + ", ".join(sorted(failing_thms))))

        # ------------------------------------------------------------ 2. audit
        axioms = {}
        hits = forbidden_scan()
        if hits:
            problems.append(("audit", "forbidden tokens: " + "; ".join(hits[:5])))
        if lean_ok:
            audit = os.path.join(wdir, "Audit.lean")
            with open(audit, "w") as f:
                f.write(f"import Autd3.Props.{pid}\n")
                for n, _ in thms:
                    f.write(f"#print axioms {n}\n")
            rc, out, dt = sh(["lake", "env", "lean", audit], cwd=LEAN, timeout=1200)
            timings["axiom_audit_s"] = round(dt, 2)
            note("== axioms ==\n" + out)
            for m in re.finditer(r"'([^']+)' depends on axioms: \[([^\]]*)\]", out.replace("\n ", " ")):
                axioms[m.group(1)] = [a.strip() for a in m.group(2).split(",") if a.strip()]
            for m in re.finditer(r"'([^']+)' does not depend on any axioms", out):
                axioms[m.group(1)] = []
            for n, _ in thms:
                if n not in axioms:
                    failing_thms.add(n)
                    problems.append(("audit", f"no axiom report for {n}"))
                elif not set(axioms[n]) <= ALLOWED_AXIOMS:
                    failing_thms.add(n)
                    problems.append(("audit", f"{n} uses axioms {axioms[n]}"))
            if tier == "thorough":
                rc, out, dt = sh(["lake", "env", "leanchecker", f"Autd3.Props.{pid}"], cwd=LEAN, timeout=3000)
                timings["leanchecker_s"] = round(dt, 2)
                note("== leanchecker ==\n" + out)
                if rc != 0:
                    problems.append(("audit", "leanchecker rejected the module: " + out[-300:]))

        # ------------------------------------------------------------ 3. build harness
        rc, out, dt = sh(["cargo", "build", "--release", "--offline"], cwd=HARNESS, timeout=3000)
        timings["cargo_build_s"] = round(dt, 2)
        note("== cargo build ==\n" + out[-6000:])
        harness_ok = rc == 0
        if not harness_ok:
            problems.append(("correspondence", "harness no longer builds against /repo: " + "\n".join(
                l for l in out.split("\n") if l.startswith("error"))[:600]))

    # ---------------------------------------------------------------- 4. correspondence + oracle
    streams_cov = []
    oracle_violations = []
    total_cases = total_nontrivial = total_lines = 0
    samples, distribution, rules = [], {}, []
    model_bin = os.path.join(LEAN, ".lake", "build", "bin", "autd3model")
    for st in cfg["streams"] if harness_ok else []:
        sdir = os.path.join(wdir, st)
        os.makedirs(sdir, exist_ok=True)
        for fn in ("ops.txt", "impl.txt", "model.txt", "report.json"):
            try:
                os.remove(os.path.join(sdir, fn))
            except FileNotFoundError:
                pass
        rc, out, dt = sh([os.path.join(HARNESS, "target", "release", "vh"), st, "--tier", tier,
                          "--seed", str(seed), "--out", sdir], timeout=7200)
        timings[f"vh_{st}_s"] = round(dt, 2)
        note(f"== vh {st} == rc={rc}\n" + out[-3000:])
        hang = os.path.join(sdir, "hang.json")
        if rc == 3 and os.path.exists(hang):
            # the harness watchdog ended the stream: one call into the implementation did not return
            v = json.load(open(hang))
            v.update({"line": 0, "stream": st, "sdir": sdir, "hang": True})
            oracle_violations.append(v)
            os.remove(hang)
            continue
        if rc != 0 or not os.path.exists(os.path.join(sdir, "report.json")):
            problems.append(("correspondence", f"harness stream {st} aborted (rc={rc}): {out.strip()[-400:]}"))
            continue
        rep = json.load(open(os.path.join(sdir, "report.json")))
        total_cases += rep["cases"]
        total_nontrivial += rep["distinct_nontrivial"]
        total_lines += rep["lines"]
        samples += rep["samples"]
        rules.append(f"[{st}] " + rep["rule"])
        distribution[st] = rep["distribution"]
        for v in rep["violations"]:
            v["stream"] = st
            v["sdir"] = sdir
            oracle_violations.append(v)
        cov = {"stream": st, "lines": rep["lines"], "cases": rep["cases"], "model_compared": False}
        if lean_ok and rep["lines"] > 0:
            with open(os.path.join(sdir, "ops.txt")) as fin, open(os.path.join(sdir, "model.txt"), "w") as fout:
                rc, err, dt = sh([model_bin, st], stdin=fin, stdout=fout, timeout=7200)
            timings[f"model_{st}_s"] = round(dt, 2)
            if rc != 0:
                problems.append(("correspondence", f"model driver failed on stream {st}: {err[-300:]}"))
            else:
                diffs, n = first_diff(os.path.join(sdir, "impl.txt"), os.path.join(sdir, "model.txt"))
                cov["model_compared"] = True
                cov["lines_compared"] = n
                cov["diverging_lines"] = len(diffs)
                if diffs:
                    ln, li, lm = diffs[0]
                    op = nth_line(os.path.join(sdir, "ops.txt"), ln)[:400]
                    problems.append(("correspondence",
                                     f"stream {st} line {ln}: op `{op}` implementation `{li}` model `{lm}`"))
        streams_cov.append(cov)

    # ---------------------------------------------------------------- 5. verdict
    known, fixed = load_known()
    known_here = known.get(pid, {})
    new_viol = []
    printed_known = set()
    for v in oracle_violations:
        if v["key"] in known_here:
            # a recorded finding is one the model exhibits too: if the model answers the line on which this
            # violation showed differently from the implementation, it is a different cause with the same symptom
            ln = v.get("line", 0)
            if ln and lean_ok and os.path.exists(os.path.join(v["sdir"], "model.txt")):
                if nth_line(os.path.join(v["sdir"], "model.txt"), ln) != nth_line(os.path.join(v["sdir"], "impl.txt"), ln):
                    v = dict(v, key=v["key"] + ":not-the-recorded-cause",
                             what=v["what"] + " — same symptom as a recorded finding, but the model (which has the recorded defect) does not fail here")
                    if not any(x["key"] == v["key"] for x in new_viol):
                        new_viol.append(v)
                    continue
            if v["key"] not in printed_known:
                printed_known.add(v["key"])
                print(f"KNOWN-FINDING: property={pid} {known_here[v['key']]} [{v['key']}]")
        elif not any(x["key"] == v["key"] for x in new_viol):
            new_viol.append(v)
    # ---- search: an obligation or the correspondence broke but the oracle saw no violation: spend a bounded extra
    # budget (other seeds, thorough-size generators, oracle only) looking for a concrete failing input
    searched = 0
    if problems and not new_viol and harness_ok and not replay_path:
        t_search = time.time()
        for k in range(1, 4):
            for st in cfg["streams"]:
                if time.time() - t_search > (240 if tier == "quick" else 900):
                    break
                sdir = os.path.join(wdir, st + f".search{k}")
                os.makedirs(sdir, exist_ok=True)
                rc, out, dt = sh([os.path.join(HARNESS, "target", "release", "vh"), st, "--tier", "thorough",
                                  "--seed", str(seed + 7919 * k), "--out", sdir], timeout=900)
                searched += 1
                if rc == 0 and os.path.exists(os.path.join(sdir, "report.json")):
                    for v in json.load(open(os.path.join(sdir, "report.json")))["violations"]:
                        if v["key"] not in known_here and not any(x["key"] == v["key"] for x in new_viol):
                            v["stream"] = st
                            v["what"] += f" (found by the search: seed {seed + 7919 * k}, thorough generators)"
                            new_viol.append(v)
                for fn in ("ops.txt", "impl.txt"):
                    try:
                        os.remove(os.path.join(sdir, fn))
                    except FileNotFoundError:
                        pass
            if new_viol:
                break
        timings["search_s"] = round(time.time() - t_search, 2)
    os.makedirs(os.path.join(VERIF, "replays"), exist_ok=True)
    exit_code = 0
    n_viol = 0
    if new_viol:
        # concrete failing inputs found on the implementation
        for v in new_viol[:5]:
            h = hashlib.sha1(v["key"].encode()).hexdigest()[:10]
            rp = os.path.join(VERIF, "replays", f"{pid}-{h}.json")
            json.dump({"property": pid, "seed": seed, "tier": tier, "stream": v["stream"], "key": v["key"],
                       "what": v["what"], "failing_input": v["replay"], "line": v.get("line", 0),
                       "broken_obligations": [f"{k}: {d}" for k, d in problems]}, open(rp, "w"), indent=1)
            print(f"VIOLATION property={pid} replay={rp}")
            print(f"  {v['what']}")
            n_viol += 1
        exit_code = 1
    elif problems:
        h = hashlib.sha1(json.dumps(problems).encode()).hexdigest()[:10]
        rp = os.path.join(VERIF, "replays", f"{pid}-unchecked-{h}.json")
        json.dump({"property": pid, "seed": seed, "tier": tier,
                   "unchecked": [f"{k}: {d}" for k, d in problems],
                   "failing_theorems": sorted(failing_thms), "search_runs": searched,
                   "note": "a proof obligation or the model/implementation correspondence no longer checks; "
                           "the search (corpus, boundary sets, seeded random budget through the implementation "
                           "oracle) found no input on which the property fails"}, open(rp, "w"), indent=1)
        print(f"VIOLATION property={pid} replay={rp} no-failing-input-found")
        for k, d in problems[:4]:
            print(f"  {k}: {d[:300]}")
        n_viol = 1
        exit_code = 1
    if replay_path:
        key = json.load(open(replay_path)).get("key")
        hit = any(v["key"] == key for v in oracle_violations)
        print(f"replay {replay_path}: {'REPRODUCED' if hit else 'not reproduced'}")

    # ---------------------------------------------------------------- 6. evidence
    obligations = len(thms)
    discharged = len([1 for n, _ in thms if n not in failing_thms]) if lean_ok else 0
    ev = {
        "property_id": pid, "tier": tier, "seed": seed, "level": "proof",
        "coverage": {
            "obligations": obligations, "discharged": discharged,
            "checker_cmd": f"cd /verif/lean && lake build Autd3.Props.{pid} && lake env lean ../work/{pid}/Audit.lean"
                           + (" && lake env leanchecker Autd3.Props." + pid if tier == "thorough" else ""),
            "trusted_base": cfg["trusted_base"],
            "theorems": [{"name": n, "axioms": axioms.get(n)} for n, _ in thms],
            "evaluations": total_cases, "distinct_nontrivial": total_nontrivial,
            "rule": " ".join(rules), "samples": samples[:8] or [n for n, _ in thms[:3]],
            "traces_validated_against_impl": total_lines,
            "correspondence": streams_cov, "distribution": distribution,
            "oracle_violations": len(oracle_violations), "known_findings_hit": len(oracle_violations) - len(new_viol),
            "broken": [f"{k}: {d[:300]}" for k, d in problems],
            "timings_s": timings,
            "explanation": cfg["explanation"],
        },
        "assumptions": cfg["assumptions"],
        "wall_s": round(time.time() - t_start, 2),
        "violations": n_viol,
    }
    os.makedirs(os.path.join(VERIF, "evidence"), exist_ok=True)
    json.dump(ev, open(os.path.join(VERIF, "evidence", f"{pid}.json"), "w"), indent=1)
    # disk: a clean run does not keep stream files beyond 200 MB (the thorough C09 stream writes 20 GB);
    # replays carry their own failing input, so nothing a report points to is lost
    if exit_code == 0:
        for st in cfg["streams"]:
            for fn in ("ops.txt", "impl.txt", "model.txt"):
                f = os.path.join(wdir, st, fn)
                try:
                    if os.path.getsize(f) > 200 * 1024 * 1024:
                        os.remove(f)
                except OSError:
                    pass
    status = "OK" if exit_code == 0 else "FAIL"
    print(f"{pid} {tier}: {status}  theorems {discharged}/{obligations}  cases {total_cases} "
          f"(non-trivial {total_nontrivial})  lines compared {total_lines}  wall {ev['wall_s']}s")
    return exit_code


if __name__ == "__main__":
    sys.exit(main())
