#!/bin/sh
# seed_queue.sh <dir>...: try each seeded-change directory in turn (tools/try_seed.py; waits for work/repo.lock)
cd "$(dirname "$0")/.."
for d in "$@"; do
  echo "=== $d"; python3 tools/try_seed.py "$d" 2>&1 | cut -c1-400 | tail -7
done
