"""Translator plug-in: Rust `pub const NAME: T = <expr>;` → Lean `def NAME : Nat := <value>`,
`#[repr(C…)] struct` wire headers → field offset/width tables, `TypeTag` discriminants,
`bitflags!` blocks, `match data[0]` dispatch arms.

Supported expression subset: integer literals (dec/hex/underscores, optional type suffix), names of
earlier constants (same file or explicitly imported environment), `( )`, unary `!` (needs the declared
width) and `-`, binary `* / + - << >> & | ^`, `as <int type>` (truncation for unsigned targets),
`std::mem::size_of::<u64>()`-style sizes of primitive types. Anything else raises Unsupported."""
import os
import re

from gen_lean import Unsupported

INT_BITS = {"u8": 8, "u16": 16, "u32": 32, "u64": 64, "usize": 64, "i8": 8, "i16": 16, "i32": 32, "i64": 64, "isize": 64}
TOKEN = re.compile(r"\s*(0x[0-9a-fA-F_]+|\d[\d_]*|[A-Za-z_][A-Za-z0-9_:]*|<<|>>|[()!\-+*/&|^<>])")


def strip_comments(s):
    s = re.sub(r"/\*.*?\*/", "", s, flags=re.S)
    return re.sub(r"//[^\n]*", "", s)


class Expr:
    def __init__(self, text, env, bits):
        self.toks = []
        pos = 0
        text = text.strip()
        while pos < len(text):
            m = TOKEN.match(text, pos)
            if not m:
                raise Unsupported(f"cannot tokenise `{text}` at {pos}")
            self.toks.append(m.group(1))
            pos = m.end()
        self.i = 0
        self.env = env
        self.bits = bits

    def peek(self):
        return self.toks[self.i] if self.i < len(self.toks) else None

    def take(self):
        t = self.peek()
        self.i += 1
        return t

    # precedence (Rust): unary > as > * / > + - > << >> > & > ^ > |
    def parse(self):
        v = self.p_or()
        if self.peek() is not None:
            raise Unsupported(f"trailing tokens {self.toks[self.i:]}")
        return v

    def p_or(self):
        v = self.p_xor()
        while self.peek() == "|":
            self.take()
            v |= self.p_xor()
        return v

    def p_xor(self):
        v = self.p_and()
        while self.peek() == "^":
            self.take()
            v ^= self.p_and()
        return v

    def p_and(self):
        v = self.p_shift()
        while self.peek() == "&":
            self.take()
            v &= self.p_shift()
        return v

    def p_shift(self):
        v = self.p_add()
        while self.peek() in ("<<", ">>"):
            op = self.take()
            r = self.p_add()
            v = v << r if op == "<<" else v >> r
        return v

    def p_add(self):
        v = self.p_mul()
        while self.peek() in ("+", "-"):
            op = self.take()
            r = self.p_mul()
            v = v + r if op == "+" else v - r
        return v

    def p_mul(self):
        v = self.p_as()
        while self.peek() in ("*", "/"):
            op = self.take()
            r = self.p_as()
            v = v * r if op == "*" else v // r
        return v

    def p_as(self):
        v = self.p_unary()
        while self.peek() == "as":
            self.take()
            ty = self.take()
            if ty not in INT_BITS:
                raise Unsupported(f"cast to {ty}")
            if ty.startswith("u"):
                v &= (1 << INT_BITS[ty]) - 1
        return v

    def p_unary(self):
        t = self.peek()
        if t == "!":
            self.take()
            if self.bits is None:
                raise Unsupported("`!` without a known width")
            return (~self.p_unary()) & ((1 << self.bits) - 1)
        if t == "-":
            self.take()
            return -self.p_unary()
        return self.p_atom()

    def p_atom(self):
        t = self.take()
        if t is None:
            raise Unsupported("unexpected end of expression")
        if t == "(":
            v = self.p_or()
            if self.take() != ")":
                raise Unsupported("missing )")
            return v
        if re.fullmatch(r"0x[0-9a-fA-F_]+", t):
            return int(t.replace("_", ""), 16)
        if re.fullmatch(r"\d[\d_]*", t):
            return int(t.replace("_", ""))
        m = re.fullmatch(r"(\d[\d_]*|0x[0-9a-fA-F_]+?)(u8|u16|u32|u64|usize|i32|i64)", t)
        if m:
            return int(m.group(1).replace("_", ""), 0)
        if t in ("std::mem::size_of::", "size_of::", "core::mem::size_of::"):
            # size_of::<T>()
            if self.take() != "<":
                raise Unsupported("size_of syntax")
            ty = self.take()
            if self.take() != ">" or self.take() != "(" or self.take() != ")":
                raise Unsupported("size_of syntax")
            if ty not in INT_BITS:
                raise Unsupported(f"size_of::<{ty}>")
            return INT_BITS[ty] // 8
        name = t.split("::")[-1]
        if name in self.env:
            return self.env[name]
        raise Unsupported(f"unknown name `{t}`")


def parse_consts(src, env=None, only_pub=False):
    """ordered list of (name, type, value) for every integer `const` of the file"""
    env = dict(env or {})
    out = []
    for m in re.finditer(r"(?:pub(?:\([a-z]+\))?\s+)?const\s+([A-Z][A-Z0-9_]*)\s*:\s*([A-Za-z0-9_<>]+)\s*=\s*([^;]+);", strip_comments(src)):
        name, ty, expr = m.group(1), m.group(2), m.group(3)
        if ty not in INT_BITS:
            continue  # floats, Durations, Freq<…>: not part of this subset
        v = Expr(expr, env, INT_BITS[ty]).parse()
        env[name] = v
        out.append((name, ty, v))
    return out, env


def lean_defs(ns, consts, header):
    lines = [header, f"namespace {ns}", ""]
    for name, ty, v in consts:
        if v < 0:
            lines.append(f"def {name} : Int := {v}  -- {ty}")
        else:
            lines.append(f"def {name} : Nat := {v}  -- {ty}" + (f" = 0x{v:X}" if v > 9 else ""))
    lines += ["", f"end {ns}", ""]
    return "\n".join(lines)


PRIM_SIZE = {"u8": 1, "i8": 1, "bool": 1, "u16": 2, "i16": 2, "u32": 4, "i32": 4, "u64": 8, "i64": 8}


def parse_structs(src, one_byte_types=()):
    """`#[repr(C…)] struct Name { field: ty, … }` → {Name: ([(field, offset, size)], total, align)} by C layout rules"""
    res = {}
    for m in re.finditer(r"#\[repr\(C(?:,\s*align\((\d+)\))?\)\]\s*(?:#\[[^\]]*\]\s*)*(?:pub\s+)?struct\s+(\w+)\s*\{([^}]*)\}", strip_comments(src)):
        align_attr = int(m.group(1) or 1)
        name, body = m.group(2), m.group(3)
        off, fields, max_align = 0, [], align_attr
        for fm in re.finditer(r"(?:pub(?:\([a-z]+\))?\s+)?(\w+)\s*:\s*([^,\n]+),?", body):
            fname, fty = fm.group(1), fm.group(2).strip()
            am = re.fullmatch(r"\[(\w+);\s*(\d+)\]", fty)
            if am:
                base, n = am.group(1), int(am.group(2))
            else:
                base, n = fty, 1
            if base in PRIM_SIZE:
                sz = PRIM_SIZE[base]
            elif base in one_byte_types:
                sz = 1
            elif base == "DebugValue":
                sz = 8
            else:
                raise Unsupported(f"struct {name}: field {fname}: type {fty}")
            al = sz
            max_align = max(max_align, al)
            off = (off + al - 1) // al * al
            fields.append((fname, off, sz * n))
            off += sz * n
        total = (off + max_align - 1) // max_align * max_align
        res[name] = (fields, total, max_align)
    return res


def read(repo, rel):
    p = os.path.join(repo, rel)
    if not os.path.exists(p):
        raise Unsupported(f"missing source file {rel}")
    return open(p).read()


def generate(repo, emit):
    hdr = "/- GENERATED by tools/gen.d/params.py from {} — do not edit -/"
    emu = "autd3-firmware-emulator/src"
    # ---- constants -------------------------------------------------------------------------
    cpu, cpu_env = parse_consts(read(repo, f"{emu}/cpu/params.rs"))
    for rel in ("cpu/operation/modulation.rs", "cpu/operation/stm/foci.rs", "cpu/operation/stm/gain.rs"):
        extra, cpu_env = parse_consts(read(repo, f"{emu}/{rel}").split("#[cfg(test)]")[0], cpu_env)
        cpu += [c for c in extra if c[0].endswith(("PAGE_SIZE", "PAGE_SIZE_WIDTH", "PAGE_SIZE_MASK"))]
    # info.rs re-declares INFO_TYPE_* privately: they must agree with params.rs
    info, _ = parse_consts(read(repo, f"{emu}/cpu/operation/info.rs").split("#[cfg(test)]")[0])
    for n, t, v in info:
        if cpu_env.get(n) != v:
            raise Unsupported(f"info.rs {n}={v} disagrees with cpu/params.rs")
    emit("CpuParams.lean", lean_defs("Autd3.Gen.Cpu", cpu, hdr.format("autd3-firmware-emulator/src/cpu/params.rs (+ page sizes from cpu/operation/*)")))
    fpga, _ = parse_consts(read(repo, f"{emu}/fpga/params.rs"))
    swap, _ = parse_consts(read(repo, f"{emu}/fpga/emulator/swapchain.rs").split("#[cfg(test)]")[0])
    fpga += [c for c in swap if c[0] == "FPGA_MAIN_CLK_FREQ"]
    emit("FpgaParams.lean", lean_defs("Autd3.Gen.Fpga", fpga, hdr.format("autd3-firmware-emulator/src/fpga/params.rs")))

    drv = []
    d_env = {}
    for rel in ("autd3-core/src/ethercat/mod.rs", "autd3-driver/src/firmware/cpu/mod.rs",
                "autd3-core/src/datagram/transition_mode.rs", "autd3-driver/src/firmware/fpga/mod.rs",
                "autd3-driver/src/firmware/fpga/fpga_state.rs"):
        cs, d_env = parse_consts(read(repo, rel).split("#[cfg(test)]")[0], d_env)
        drv += cs
    # TypeTag discriminants
    ops = strip_comments(read(repo, "autd3-driver/src/firmware/operation/mod.rs"))
    m = re.search(r"enum\s+TypeTag\s*\{([^}]*)\}", ops)
    if not m:
        raise Unsupported("TypeTag enum not found")
    tags = []
    for tm in re.finditer(r"(\w+)\s*=\s*(0x[0-9a-fA-F]+|\d+)", m.group(1)):
        tags.append((tm.group(1), int(tm.group(2), 0)))
    if len(tags) != len([l for l in m.group(1).split(",") if l.strip()]):
        raise Unsupported("TypeTag variant without explicit discriminant")
    # bitflags blocks of the operations
    flags = []
    for rel in ("modulation.rs", "gain.rs", "stm/foci.rs", "stm/gain.rs", "silencer/mod.rs", "gpio_in.rs"):
        src = strip_comments(read(repo, f"autd3-driver/src/firmware/operation/{rel}"))
        for bm in re.finditer(r"impl\s+(\w+)\s*:\s*(u8|u16)\s*\{([^}]*)\}", src):
            ty = bm.group(1)
            for fm in re.finditer(r"const\s+(\w+)\s*=\s*([^;]+);", bm.group(3)):
                flags.append((f"{ty}_{fm.group(1)}", bm.group(2), Expr(fm.group(2), {}, INT_BITS[bm.group(2)]).parse()))
    # gain stm mode discriminants
    gm = strip_comments(read(repo, "autd3-driver/src/firmware/cpu/gain_stm_mode.rs"))
    modes = [(f"GainSTMMode_{a}", "u8", int(b, 0)) for a, b in re.findall(r"(\w+)\s*=\s*(\d+|0x[0-9a-fA-F]+)\s*,", gm)]
    if len(modes) != 3:
        raise Unsupported("GainSTMMode: expected three explicit discriminants")
    body = lean_defs("Autd3.Gen.Drv", drv + [(f"TAG_{n}", "u8", v) for n, v in tags] + flags + modes,
                     hdr.format("autd3-core / autd3-driver constants, TypeTag, bitflags"))
    emit("DriverConsts.lean", body)

    # ---- layouts ----------------------------------------------------------------------------
    one_byte = ("TypeTag", "ModulationControlFlags", "GainControlFlags", "FociSTMControlFlags", "GainSTMControlFlags",
                "SilencerControlFlags", "GPIOInFlags", "GainSTMMode", "FirmwareVersionType")
    drv_structs, fw_structs = {}, {}
    for rel in ("modulation.rs", "gain.rs", "stm/foci.rs", "stm/gain.rs", "segment.rs", "silencer/completion_steps.rs",
                "silencer/update_rate.rs", "clear.rs", "sync.rs", "force_fan.rs", "reads_fpga_state.rs", "phase_corr.rs",
                "pulse_width_encoder.rs", "debug.rs", "gpio_in.rs", "cpu_gpio_out.rs", "info.rs"):
        drv_structs.update(parse_structs(read(repo, f"autd3-driver/src/firmware/operation/{rel}").split("#[cfg(test)]")[0], one_byte))
    for rel in ("modulation.rs", "gain.rs", "stm/foci.rs", "stm/gain.rs", "silecer.rs", "clear.rs", "sync.rs", "force_fan.rs",
                "reads_fpga_state.rs", "phase_corr.rs", "pulse_width_encoder.rs", "debug.rs", "gpio_in.rs", "cpu_gpio_out.rs", "info.rs"):
        fw_structs.update(parse_structs(read(repo, f"{emu}/cpu/operation/{rel}").split("#[cfg(test)]")[0]))
    hdr_struct = parse_structs(read(repo, "autd3-core/src/link/datagram/header.rs").split("#[cfg(test)]")[0])
    drv_structs.update(hdr_struct)

    def layout_defs(ns, structs):
        ls = [f"namespace {ns}", ""]
        for name in sorted(structs):
            fields, total, _ = structs[name]
            ls.append(f"def {name}_size : Nat := {total}")
            items = ", ".join(f'("{f}", {o}, {s})' for f, o, s in fields if not f.startswith("__"))
            ls.append(f"def {name}_fields : List (String × Nat × Nat) := [{items}]")
            for f, o, s in fields:
                if not f.startswith("__"):
                    ls.append(f"def {name}_{f}_off : Nat := {o}")
        ls += ["", f"end {ns}", ""]
        return "\n".join(ls)

    pairs = [("ModulationHead", "ModulationHead"), ("ModulationSubseq", "ModulationSubseq"), ("FociSTMHead", "FociSTMHead"),
             ("FociSTMSubseq", "FociSTMSubseq"), ("GainSTMHead", "GainSTMHead"), ("GainSTMSubseq", "GainSTMSubseq"), ("Gain", "Gain"),
             ("SwapSegmentT", "GainUpdate"), ("SwapSegmentTWithTransition", "ModulationUpdate"),
             ("SwapSegmentTWithTransition", "FociSTMUpdate"), ("SwapSegmentTWithTransition", "GainSTMUpdate"),
             ("SilencerFixedCompletionSteps", "ConfigSilencer"), ("SilencerFixedUpdateRate", "ConfigSilencer"), ("Clear", "Clear"),
             ("Sync", "Sync"), ("ForceFan", "ForceFan"), ("ReadsFPGAState", "ReadsFPGAState"), ("PhaseCorr", "PhaseCorr"), ("Pwe", "Pwe"),
             ("DebugSetting", "DebugOutIdx"), ("EmulateGPIOIn", "GPIOIn"), ("CpuGPIOOut", "CpuGPIOOut"), ("FirmInfo", "FirmInfo")]
    plines = ["namespace Autd3.Gen", "",
              "/-- (driver struct, firmware struct, driver (offset,size) of named fields, firmware ditto, driver size, firmware size) -/",
              "def headerPairs : List (String × String × List (Nat × Nat) × List (Nat × Nat) × Nat × Nat) := ["]
    items = []
    for dn, fn in pairs:
        if dn not in drv_structs or fn not in fw_structs:
            raise Unsupported(f"header struct pair {dn}/{fn} not found")
        df, dt, _ = drv_structs[dn]
        ff, ft, _ = fw_structs[fn]
        l1 = ", ".join(f"({o}, {sz})" for f, o, sz in df if not f.startswith("__"))
        l2 = ", ".join(f"({o}, {sz})" for f, o, sz in ff if not f.startswith("__"))
        items.append(f'  ("{dn}", "{fn}", [{l1}], [{l2}], {dt}, {ft})')
    plines.append(",\n".join(items) + "]")
    plines += ["", "/-- every `TypeTag` discriminant of the driver -/",
               "def allTags : List (String × Nat) := [" + ", ".join(f'("{n}", {v})' for n, v in tags) + "]", "", "end Autd3.Gen", ""]
    emit("Layout.lean", hdr.format("driver operation structs and firmware-emulator operation structs (C layout rules)") + "\n"
         + layout_defs("Autd3.Gen.DrvLayout", drv_structs) + layout_defs("Autd3.Gen.FwLayout", fw_structs) + "\n".join(plines))

    # ---- dispatch -----------------------------------------------------------------------------
    em = strip_comments(read(repo, f"{emu}/cpu/emulator.rs"))
    m = re.search(r"match\s+data\[0\]\s*\{(.*?)\n\s*\}", em, re.S)
    if not m:
        raise Unsupported("handle_payload dispatch not found")
    arms = re.findall(r"(TAG_\w+)\s*=>\s*self\.(\w+)\(data\)", m.group(1))
    if "_ => ERR_NOT_SUPPORTED_TAG" not in m.group(1) or not arms:
        raise Unsupported("handle_payload dispatch shape")
    lines = [hdr.format("cpu/emulator.rs handle_payload"), "namespace Autd3.Gen.Dispatch", "",
             "/-- (tag value, handler name) for every arm of `match data[0]` -/",
             "def arms : List (Nat × String) := [" + ", ".join(f'({cpu_env[t]}, "{h}")' for t, h in arms) + "]", "",
             "end Autd3.Gen.Dispatch", ""]
    emit("Dispatch.lean", "\n".join(lines))
