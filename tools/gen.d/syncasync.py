"""Translator plug-in for C11: the asynchronous controller is a textual copy of the synchronous one.

For every *paired* function (same name, same file position under `autd3/src/controller/**` and
`autd3/src/async/controller/**`) both token streams are extracted, normalised by the explicit list
below and emitted as Lean `List String` literals in `Gen/SyncAsync.lean`; `Props/C11.lean` proves
`asyncTokens_<fn> = syncTokens_<fn>` by `decide`.  A change applied to one copy only makes that
theorem fail to elaborate.

Normalisation (complete list; anything else is a difference):
  N1  comments and doc comments are dropped; whitespace is irrelevant (token level)
  N2  the keyword `async` is dropped; the postfix `.await` is dropped
  N3  the prefix `Async` of a type/trait name is dropped (`AsyncLink`→`Link`, `AsyncSleep`→`Sleep`,
      `AsyncSleeper`→`Sleeper`)
  N4  `SpinSleeper` (the sync default sleeper) is written `Sleeper` (the async default is
      `AsyncSleeper`, i.e. `Sleeper` after N3)
  N5  `Controller < L >` in return position is written `Self` (the async `open` spells the type out)
  N6  a trailing comma before a closing bracket is dropped (rustfmt puts one when a call that
      gained `.await` is broken over several lines)
Extraction starts at the `fn` keyword (attributes and visibility before it are not part of the
stream, `async` between them is covered by N2) and ends at the matching closing brace.
`close_impl`, `close` and `Drop::drop` genuinely differ in shape (the async copy takes no option and,
in `drop`, blocks on the runtime only on a multi-thread runtime); they are *not* paired here and are
covered by the `sender_async` correspondence stream only.

Fails (raises `Unsupported`) when a paired function is missing from either copy, appears a
different number of times, or the lexer meets a character it does not know.
"""
import os
import re


class Unsupported(Exception):
    pass


# (label, relative file, function name, occurrence index in the non-test part of the file)
PAIRS = [
    ("sender_send", "sender/mod.rs", "send", 0),
    ("send_impl", "sender/mod.rs", "send_impl", 0),
    ("send_receive", "sender/mod.rs", "send_receive", 0),
    ("wait_msg_processed", "sender/mod.rs", "wait_msg_processed", 0),
    ("open", "mod.rs", "open", 0),
    ("open_with_option", "mod.rs", "open_with_option", 0),
    ("sender", "mod.rs", "sender", 0),
    ("controller_send", "mod.rs", "send", 0),
    ("open_impl", "mod.rs", "open_impl", 0),
    ("fetch_firminfo", "mod.rs", "fetch_firminfo", 0),
    ("firmware_version", "mod.rs", "firmware_version", 0),
    ("fpga_state", "mod.rs", "fpga_state", 0),
    ("controller_group_send", "group.rs", "group_send", 0),
    ("sender_group_send", "group.rs", "group_send", 1),
]

TOKEN = re.compile(r"""
    (?P<ws>\s+)
  | (?P<lc>//[^\n]*)
  | (?P<bc>/\*.*?\*/)
  | (?P<str>b?"(?:\\.|[^"\\])*")
  | (?P<chr>'(?:\\.|[^'\\])')
  | (?P<life>'[A-Za-z_][A-Za-z0-9_]*)
  | (?P<id>(?:r\#)?[A-Za-z_][A-Za-z0-9_]*)
  | (?P<num>[0-9][A-Za-z0-9_]*(?:\.[0-9][A-Za-z0-9_]*)?)
  | (?P<op>::|->|=>|==|!=|<=|>=|&&|\|\||\.\.=|\.\.\.|\.\.|\+=|-=|\*=|/=|%=|\^=|&=|\|=|<<=|>>=|<<|>>
        |[{}()\[\]<>;,.:=+\-*/%!&|^?@#$~])
""", re.X | re.S)


def lex(src, where):
    out, i = [], 0
    while i < len(src):
        m = TOKEN.match(src, i)
        if not m:
            raise Unsupported(f"{where}: cannot lex at offset {i}: {src[i:i+20]!r}")
        i = m.end()
        if m.lastgroup in ("ws", "lc", "bc"):
            continue
        out.append(m.group(0))
    return out


def non_test_part(src):
    k = src.find("#[cfg(test)]")
    return src if k < 0 else src[:k]


def functions(tokens, name):
    """token slices of every `fn name … { … }`"""
    res, i, n = [], 0, len(tokens)
    while i < n - 1:
        if tokens[i] == "fn" and tokens[i + 1] == name:
            j, depth = i, 0
            # find the opening brace of the body (generic bounds contain no braces in this code base)
            while j < n and tokens[j] != "{":
                if tokens[j] == ";":
                    raise Unsupported(f"fn {name}: declaration without a body")
                j += 1
            if j >= n:
                raise Unsupported(f"fn {name}: no body")
            while j < n:
                if tokens[j] == "{":
                    depth += 1
                elif tokens[j] == "}":
                    depth -= 1
                    if depth == 0:
                        break
                j += 1
            if depth != 0:
                raise Unsupported(f"fn {name}: unbalanced braces")
            res.append(tokens[i:j + 1])
            i = j + 1
        else:
            i += 1
    return res


def normalise(toks):
    out, i, n = [], 0, len(toks)
    while i < n:
        t = toks[i]
        if t == "async":                                   # N2
            i += 1
            continue
        if t == "." and i + 1 < n and toks[i + 1] == "await":   # N2
            i += 2
            continue
        if re.fullmatch(r"Async[A-Z][A-Za-z0-9_]*", t):    # N3
            t = t[len("Async"):]
        if t == "SpinSleeper":                             # N4
            t = "Sleeper"
        if t == "Controller" and toks[i + 1:i + 4] == ["<", "L", ">"]:   # N5
            out.append("Self")
            i += 4
            continue
        if t == "," and i + 1 < n and toks[i + 1] in (")", "]", "}"):   # N6
            i += 1
            continue
        out.append(t)
        i += 1
    return out


def lean_str(s):
    return '"' + s.replace("\\", "\\\\").replace('"', '\\"') + '"'


def lean_list(toks):
    lines, cur = [], "  ["
    for k, t in enumerate(toks):
        piece = lean_str(t) + (", " if k + 1 < len(toks) else "")
        if len(cur) + len(piece) > 110:
            lines.append(cur.rstrip())
            cur = "   "
        cur += piece
    lines.append(cur + "]")
    return "\n".join(lines)


def generate(repo, emit):
    sync_root = os.path.join(repo, "autd3", "src", "controller")
    async_root = os.path.join(repo, "autd3", "src", "async", "controller")
    cache = {}

    def toks(root, rel):
        p = os.path.join(root, rel)
        if p not in cache:
            if not os.path.exists(p):
                raise Unsupported(f"missing source file {p}")
            cache[p] = lex(non_test_part(open(p).read()), p)
        return cache[p]

    body = ["/-! GENERATED by tools/gen.d/syncasync.py from autd3/src/controller/** and",
            "autd3/src/async/controller/** — do not edit.  Token streams of the paired functions after the",
            "normalisation N1–N6 documented in the generator. -/",
            "namespace Autd3.Gen.SyncAsync", ""]
    names = []
    for label, rel, fn, occ in PAIRS:
        fs = functions(toks(sync_root, rel), fn)
        fa = functions(toks(async_root, rel), fn)
        if len(fs) != len(fa):
            raise Unsupported(f"fn {fn} in {rel}: {len(fs)} sync vs {len(fa)} async definitions")
        if occ >= len(fs):
            raise Unsupported(f"fn {fn} (occurrence {occ}) not found in {rel}")
        s, a = normalise(fs[occ]), normalise(fa[occ])
        body.append(f"def syncTokens_{label} : List String :=\n{lean_list(s)}\n")
        body.append(f"def asyncTokens_{label} : List String :=\n{lean_list(a)}\n")
        names.append(label)
    body.append("/-- the paired functions, in the order of the generator's table -/")
    body.append("def paired : List String := [" + ", ".join(lean_str(n) for n in names) + "]")
    body.append("")
    body.append("end Autd3.Gen.SyncAsync")
    emit("SyncAsync.lean", "\n".join(body) + "\n")
