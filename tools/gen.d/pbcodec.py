"""Translator plug-in for C18 (remote-link encoding): emits `Gen/PbCodec.lean`.

Read from the repo's working tree (fails closed on anything outside the tiny subset it knows):
  * `EC_OUTPUT_FRAME_SIZE` (autd3-core/src/ethercat/mod.rs),
  * the `#[repr(C…)]` layouts of `Header`, `TxMessage` (autd3-core/src/link/datagram/{header,tx}.rs) and
    `RxMessage` (…/rx.rs): field types u8/u16/arrays of them, C layout rules -> sizes/offsets,
  * `METER` (autd3-core/src/defined/mod.rs, the non-`use_meter` branch) and the default sound speed
    expression `340.0 * METER` of `Device::new` (autd3-core/src/geometry/device.rs) -> f32 bit pattern,
  * the simulator link (autd3-link-simulator/src/lib.rs) must move frames with `TxRawData::from(tx)`,
    acknowledgements with `Vec::<RxMessage>::from_msg(…)` and geometries with `Geometry::from(geometry)`
    (the three conversions the model is about) and `receive` must copy the decoded acknowledgements only
    behind the equal-length test — otherwise the model no longer describes the link; `update` must re-send the
    geometry exactly when `geometry.version()` differs from the recorded one (early `return Ok(())` on equality).
"""
import os
import re
import struct

PRIM = {"u8": (1, 1), "u16": (2, 2), "u32": (4, 4), "u64": (8, 8)}


class Unsupported(Exception):
    pass


def read(repo, rel):
    p = os.path.join(repo, rel)
    if not os.path.exists(p):
        raise Unsupported(f"missing source file {rel}")
    return open(p).read()


def strip_comments(src):
    src = re.sub(r"/\*.*?\*/", "", src, flags=re.S)
    return re.sub(r"//[^\n]*", "", src)


def const_usize(src, name, rel):
    m = re.search(r"pub\s+const\s+" + name + r"\s*:\s*usize\s*=\s*([0-9_]+)\s*;", src)
    if not m:
        raise Unsupported(f"{rel}: `pub const {name}: usize = <literal>;` not found")
    return int(m.group(1).replace("_", ""))


def struct_fields(src, name, rel):
    """-> (repr args, [(field, type text)]) of `struct name { … }` (named fields only)"""
    m = re.search(r"pub\s+struct\s+" + name + r"\s*\{(.*?)\n\}", src, flags=re.S)
    if not m:
        raise Unsupported(f"{rel}: struct {name} not found")
    body = m.group(1)
    # attributes = text between the end of the previous item and `pub struct`
    before = src[:m.start()]
    cut = max(before.rfind("}\n"), before.rfind(";\n"))
    attrs = before[cut + 1:]
    r = re.search(r"#\[repr\(([^\]]*)\)\]", attrs)
    if not r:
        raise Unsupported(f"{rel}: struct {name} has no #[repr(..)]")
    reprs = [x.strip() for x in re.split(r",(?![^(]*\))", r.group(1))]
    if "C" not in reprs:
        raise Unsupported(f"{rel}: struct {name} is not repr(C): {reprs}")
    body = re.sub(r"#\[[^\]]*\]", "", body)
    fields = []
    for part in re.split(r",(?![^\[]*\])", body):
        part = part.strip()
        if not part:
            continue
        fm = re.match(r"(?:pub(?:\([^)]*\))?\s+)?(\w+)\s*:\s*(.+)$", part, flags=re.S)
        if not fm:
            raise Unsupported(f"{rel}: struct {name}: cannot parse field `{part}`")
        fields.append((fm.group(1), " ".join(fm.group(2).split())))
    align = 1
    for x in reprs:
        am = re.match(r"align\((\d+)\)", x)
        if am:
            align = int(am.group(1))
        elif x != "C":
            raise Unsupported(f"{rel}: struct {name}: unsupported repr `{x}`")
    return align, fields


def eval_usize(expr, env, where):
    """tiny evaluator: literals, names in env, size_of::<T>(), + - * / and parentheses"""
    e = expr
    e = re.sub(r"(?:std::mem::|core::mem::)?size_of::<\s*(\w+)\s*>\(\)", lambda m: f" SIZEOF_{m.group(1)} ", e)
    toks = re.findall(r"[A-Za-z_]\w*|\d[\d_]*|[-+*/()]", e)
    if "".join(toks) != re.sub(r"\s+", "", e):
        raise Unsupported(f"{where}: unsupported expression `{expr}`")
    out = []
    for t in toks:
        if re.match(r"\d", t):
            out.append(str(int(t.replace("_", ""))))
        elif t in "+-*()":
            out.append(t)
        elif t == "/":
            out.append("//")
        elif t in env:
            out.append(str(env[t]))
        else:
            raise Unsupported(f"{where}: unknown name `{t}` in `{expr}`")
    return int(eval(" ".join(out), {"__builtins__": {}}))


def layout(fields, min_align, env, where):
    """C layout: -> (size, align, [(name, offset, size)])"""
    off, align, res = 0, min_align, []
    for fname, ty in fields:
        am = re.match(r"\[\s*(\w+)\s*;\s*(.+)\]$", ty)
        if am:
            if am.group(1) not in PRIM:
                raise Unsupported(f"{where}: element type {am.group(1)}")
            es, ea = PRIM[am.group(1)]
            cnt = eval_usize(am.group(2), env, where)
            fs, fa = es * cnt, ea
        elif ty in PRIM:
            fs, fa = PRIM[ty]
        elif "SIZEOF_" + ty in env:
            fs, fa = env["SIZEOF_" + ty], env["ALIGNOF_" + ty]
        else:
            raise Unsupported(f"{where}: field {fname}: unsupported type `{ty}`")
        off = (off + fa - 1) // fa * fa
        res.append((fname, off, fs))
        off += fs
        align = max(align, fa)
    size = (off + align - 1) // align * align
    return size, align, res


def f32_bits(x):
    return struct.unpack("<I", struct.pack("<f", x))[0]


def generate(repo, emit):
    env = {}
    rel = "autd3-core/src/ethercat/mod.rs"
    env["EC_OUTPUT_FRAME_SIZE"] = const_usize(strip_comments(read(repo, rel)), "EC_OUTPUT_FRAME_SIZE", rel)

    rel = "autd3-core/src/link/datagram/header.rs"
    al, fields = struct_fields(strip_comments(read(repo, rel)), "Header", rel)
    hsize, halign, hl = layout(fields, al, env, rel)
    env["SIZEOF_Header"], env["ALIGNOF_Header"] = hsize, halign
    off = {n: o for n, o, _ in hl}
    if "msg_id" not in off or "slot_2_offset" not in off:
        raise Unsupported(f"{rel}: Header lacks msg_id/slot_2_offset")

    rel = "autd3-core/src/link/datagram/tx.rs"
    src = strip_comments(read(repo, rel))
    m = re.search(r"const\s+PAYLOAD_SIZE\s*:\s*usize\s*=\s*(.+?);", src, flags=re.S)
    if not m:
        raise Unsupported(f"{rel}: const PAYLOAD_SIZE not found")
    env["SIZEOF_u16"] = 2
    env["PAYLOAD_SIZE"] = eval_usize(m.group(1), env, rel)
    al, fields = struct_fields(src, "TxMessage", rel)
    tsize, talign, tl = layout(fields, al, env, rel)
    toff = {n: (o, s) for n, o, s in tl}
    if list(toff) != ["header", "payload"]:
        raise Unsupported(f"{rel}: TxMessage fields are {list(toff)}, expected header, payload")

    rel = "autd3-core/src/link/datagram/rx.rs"
    al, fields = struct_fields(strip_comments(read(repo, rel)), "RxMessage", rel)
    rsize, ralign, rl = layout(fields, al, env, rel)
    roff = {n: o for n, o, _ in rl}
    if sorted(roff) != ["ack", "data"] or ralign != 1:
        raise Unsupported(f"{rel}: RxMessage is not two u8 fields data, ack")

    rel = "autd3-core/src/defined/mod.rs"
    src = strip_comments(read(repo, rel))
    m = re.search(r"#\[cfg\(not\(feature\s*=\s*\"use_meter\"\)\)\]\s*mod\s+unit\s*\{\s*pub\s+const\s+METER\s*:\s*f32\s*=\s*([0-9_.]+)\s*;", src)
    if not m:
        raise Unsupported(f"{rel}: METER (non-use_meter) not found")
    meter = float(m.group(1).replace("_", ""))
    rel = "autd3-core/src/geometry/device.rs"
    src = strip_comments(read(repo, rel))
    m = re.search(r"sound_speed\s*:\s*([0-9_.]+)\s*\*\s*METER\s*,", src)
    if not m:
        raise Unsupported(f"{rel}: default `sound_speed: <lit> * METER` not found in Device::new")
    ss = float(m.group(1).replace("_", "")) * meter
    ss_bits = f32_bits(ss)
    if struct.unpack("<f", struct.pack("<I", ss_bits))[0] != ss:
        raise Unsupported(f"{rel}: default sound speed {ss} is not exactly representable in f32")

    rel = "autd3-link-simulator/src/lib.rs"
    src = re.sub(r"\s+", "", strip_comments(read(repo, rel)))
    for needle in ("TxRawData::from(tx)", "Vec::<RxMessage>::from_msg(", "Geometry::from(geometry)"):
        if needle not in src:
            raise Unsupported(f"{rel}: the simulator link no longer uses `{needle}`")
    # `receive`: the decoded acknowledgements are copied only behind an equal-length test
    # (model: `linkReceive`; theorem `link_receive_total`). Names are free, the shape is not.
    if not re.search(r"if(\w+)\.len\(\)==(\w+)\.len\(\)\{\1\.copy_from_slice\(&\2\);Ok\(true\)\}else\{Ok\(false\)\}", src):
        raise Unsupported(f"{rel}: `receive` no longer has the shape `if rx.len() == rx_.len() {{ rx.copy_from_slice(&rx_); Ok(true) }} else {{ Ok(false) }}` that Model/PbCodec.lean `linkReceive` mirrors")
    if src.count("copy_from_slice") != 1:
        raise Unsupported(f"{rel}: more than one copy_from_slice in the simulator link")
    # `update`: the geometry is re-sent exactly when its version changed since the last transfer: early return on an
    # equal version, then the version is recorded and `Geometry::from(geometry)` goes out (not modelled; tied by shape
    # only, like `receive`). An inverted test would never re-send a moved geometry and re-send an unchanged one on
    # every frame.
    if not re.search(r"asyncfnupdate\(&mutself,(\w+):&[\w:]*Geometry\)->Result<\(\),LinkError>\{"
                     r"ifself\.(\w+)==\1\.version\(\)\{returnOk\(\(\)\);\}"
                     r"self\.\2=\1\.version\(\);"
                     r"self\.client\.update_geomety\(Geometry::from\(\1\)\)\.await", src):
        raise Unsupported(f"{rel}: `SimulatorInner::update` no longer has the shape `if self.last_geometry_version == geometry.version() {{ return Ok(()); }} self.last_geometry_version = geometry.version(); self.client.update_geomety(Geometry::from(geometry)).await…`")
    # … and `open` records the version of the geometry it configured
    if not re.search(r"\.config_geomety\(Geometry::from\((\w+)\)\)\.await.*?Ok\(Self\{client,(\w+):\1\.version\(\),?\}\)", src):
        raise Unsupported(f"{rel}: `SimulatorInner::open` no longer configures `Geometry::from(geometry)` and records `geometry.version()`")

    body = f"""/-! GENERATED by tools/gen.d/pbcodec.py from the repo's working tree. Do not edit. -/
namespace Autd3.Gen.PbCodec

/-- `autd3_core::ethercat::EC_OUTPUT_FRAME_SIZE` -/
def EC_OUTPUT_FRAME_SIZE : Nat := {env["EC_OUTPUT_FRAME_SIZE"]}
/-- `size_of::<Header>()` by C layout rules -/
def HEADER_SIZE : Nat := {hsize}
def HEADER_MSG_ID_OFFSET : Nat := {off["msg_id"]}
def HEADER_SLOT_2_OFFSET : Nat := {off["slot_2_offset"]}
/-- byte offset and size of `TxMessage::payload` -/
def TX_PAYLOAD_OFFSET : Nat := {toff["payload"][0]}
def TX_PAYLOAD_SIZE : Nat := {toff["payload"][1]}
/-- `size_of::<TxMessage>()` by C layout rules -/
def TX_MESSAGE_SIZE : Nat := {tsize}
/-- `size_of::<RxMessage>()`, offsets of `data` and `ack` -/
def RX_MESSAGE_SIZE : Nat := {rsize}
def RX_DATA_OFFSET : Nat := {roff["data"]}
def RX_ACK_OFFSET : Nat := {roff["ack"]}
/-- bit pattern of the `f32` default `Device::sound_speed` (`{m.group(1)} * METER`, METER = {meter}) -/
def DEFAULT_SOUND_SPEED_BITS : Nat := 0x{ss_bits:08x}

end Autd3.Gen.PbCodec
"""
    emit("PbCodec.lean", body)
