#!/usr/bin/env python3
"""try_seed.py <seed dir> [--tier quick|thorough] [--props C01,C02]: apply <seed dir>/patch.diff to /repo,
run the check(s) of the property it breaks (meta.json "property") — or the given list —, write the outcome to
<seed dir>/result.json, and ALWAYS undo the change (git checkout) afterwards."""
import fcntl, json, os, subprocess, sys, time
d = os.path.abspath(sys.argv[1])
tier = "quick"
props = None
a = sys.argv[2:]
while a:
    if a[0] == "--tier": tier = a[1]; a = a[2:]
    elif a[0] == "--props": props = a[1].split(","); a = a[2:]
    else: a = a[1:]
meta = json.load(open(os.path.join(d, "meta.json")))
props = props or [meta["property"]]
os.makedirs("/verif/work", exist_ok=True)
_lock = open("/verif/work/repo.lock", "w"); fcntl.flock(_lock, fcntl.LOCK_EX)   # never overlap a check run (tools/run_all.sh)
st = subprocess.run(["git", "-C", "/repo", "status", "--porcelain"], capture_output=True, text=True).stdout.strip()
if st:
    print("/repo is not clean:\n" + st); sys.exit(2)
r = subprocess.run(["git", "-C", "/repo", "apply", os.path.join(d, "patch.diff")], capture_output=True, text=True)
if r.returncode != 0:
    print("patch does not apply:", r.stderr); sys.exit(2)
res = {"tier": tier, "checks": {}}
# the evidence files describe the UNCHANGED tree: keep them, a trial run must not replace them
saved_evidence = {p: open(f"/verif/evidence/{p}.json").read() for p in props if os.path.exists(f"/verif/evidence/{p}.json")}
try:
    for p in props:
        t0 = time.time()
        c = subprocess.run(["./check", p, "--tier", tier], cwd="/verif", capture_output=True, text=True)
        out = c.stdout + c.stderr
        res["checks"][p] = {"exit": c.returncode, "wall_s": round(time.time() - t0, 1),
                            "violation_lines": [l for l in out.split("\n") if l.startswith("VIOLATION")][:6],
                            "detail": [l for l in out.split("\n") if l.startswith("  ")][:8],
                            "summary": [l for l in out.split("\n") if " quick: " in l or " thorough: " in l]}
        print(p, "exit", c.returncode, *res["checks"][p]["violation_lines"][:2], *res["checks"][p]["detail"][:2], sep="\n   ")
finally:
    subprocess.run(["git", "-C", "/repo", "checkout", "--", "."])
    subprocess.run(["git", "-C", "/repo", "clean", "-fdq"])
    for p, txt in saved_evidence.items():
        open(f"/verif/evidence/{p}.json", "w").write(txt)
res["caught"] = any(v["exit"] != 0 for v in res["checks"].values())
json.dump(res, open(os.path.join(d, "result.json"), "w"), indent=1)
print("caught" if res["caught"] else "MISSED")
