"""Per-property configuration of ./check: one JSON file per property in tools/props.d/.
Keys: streams (harness/model stream names), trusted_base, assumptions, explanation,
manifest {text, design_ref, note, technique}. The strings $KERNEL, $TRANSLATOR, $CORR inside
trusted_base expand to the shared descriptions below."""
import glob
import json
import os

KERNEL = "Lean 4.33 kernel (thorough tier: re-checked by leanchecker); axioms ⊆ {propext, Classical.choice, Quot.sound}, audited with #print axioms on every property theorem; no sorry/native_decide/bv_decide"
TRANSLATOR = "tools/gen_lean.py: constants, layouts and tables regenerated from /repo on every run (fails closed on unsupported syntax)"
CORR = "correspondence harness `vh` (Rust, calls the real crates in-process) vs compiled Lean model `autd3model` on identical op lines; generators and canonical printing are trusted"

PROPS, MANIFEST_TEXT = {}, {}
for p in sorted(glob.glob(os.path.join(os.path.dirname(os.path.abspath(__file__)), "props.d", "*.json"))):
    pid = os.path.basename(p)[:-5]
    d = json.load(open(p))
    d["trusted_base"] = [{"$KERNEL": KERNEL, "$TRANSLATOR": TRANSLATOR, "$CORR": CORR}.get(x, x) for x in d["trusted_base"]]
    MANIFEST_TEXT[pid] = d.pop("manifest")
    PROPS[pid] = d

NOT_CLAIMED = {}
