"""Per-property configuration of ./check (streams, trusted base, assumptions)."""

KERNEL = "Lean 4.33 kernel (thorough tier: re-checked by leanchecker); axioms ⊆ {propext, Classical.choice, Quot.sound}, audited with #print axioms on every property theorem; no sorry/native_decide/bv_decide"
TRANSLATOR = "tools/gen_lean.py: constants, layouts and tables regenerated from /repo on every run (fails closed on unsupported syntax)"
CORR = "correspondence harness `vh` (Rust, calls the real crates in-process) vs compiled Lean model `autd3model` on identical op lines; generators and canonical printing are trusted"

PROPS = {
    "C09": {
        "streams": ["silencer"],
        "trusted_base": [KERNEL, CORR,
                         "Model/Silencer.lean is hand-written (modelled, not verified): tied to silencer.rs by the `silencer` stream only"],
        "assumptions": ["the silencer value is non-zero (NonZeroU16 on the Rust side)",
                        "`settled` = internal value exactly on a byte boundary with target equal to it; rate memory arbitrary"],
        "explanation": "Theorems about Model/Silencer.lean for every v>0, every byte pair and every settled state: completion in v updates, exact trajectory (closed form), shorter arc, monotone/no overshoot, 16-bit range invariant, bounded rate. Tie: every output byte of the real SilencerEmulator over exhaustive 256x256 pairs for small v, boundary/random pairs for large v, winding walks, interrupted transitions and update-rate mode is compared with the model; an observational oracle on the implementation supplies the failing input.",
    },
}

MANIFEST_TEXT = {
    "C09": {
        "text": "Proof: ten kernel-checked theorems about the Lean model of both silencer filters, for every step count/rate, every byte pair and every settled state (completion within v updates, closed-form trajectory, shorter arc, monotone without overshoot, 16-bit range invariant = no winding state, bounded rate). The model is tied to silencer.rs by a differential run over ~1.5M transitions (exhaustive 256x256 for small v) plus an observational oracle on the real filter.",
        "design_ref": "5 (C09)",
        "note": "Trusted: Lean kernel + the three standard axioms; the hand-written model (checked against the code by sampling, exhaustive only for the listed step counts); the harness. The theorems are about the model, not the Rust source.",
        "technique": "Lean 4 theorems by induction over updates + omega; differential correspondence against the real SilencerEmulator",
    },
}

NOT_CLAIMED = {}
