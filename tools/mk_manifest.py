#!/usr/bin/env python3
"""Writes MANIFEST.json from tools/props.py (claimed properties) — every other property id of
properties.jsonl is listed under not_applicable with its reason from NOT_CLAIMED."""
import json, os, sys
VERIF = os.path.dirname(os.path.dirname(os.path.abspath(__file__)))
sys.path.insert(0, os.path.join(VERIF, "tools"))
from props import PROPS, MANIFEST_TEXT, NOT_CLAIMED

ids = [json.loads(l)["id"] for l in open(os.path.join(VERIF, "properties.jsonl"))]
checks = []
for pid in ids:
    if pid not in PROPS:
        continue
    t = MANIFEST_TEXT[pid]
    checks.append({
        "property_id": pid,
        "quick_cmd": f"./check {pid} --tier quick",
        "thorough_cmd": f"./check {pid} --tier thorough",
        "evidence_file": f"/verif/evidence/{pid}.json",
        "replay_cmd_template": f"./check {pid} --replay {{path}}",
        "engine": "lean4+vh",
        "level_claimed": {"category": "proof", "text": t["text"], "design_ref": t["design_ref"]},
        "level_note": t["note"],
        "technique": t["technique"],
    })
m = {
    "version": 1,
    "setup_cmd": "./tools/setup.sh",
    "hooks": {
        "guard": "autd3_rs_verif",
        "enable": "RUSTFLAGS=\"--cfg autd3_rs_verif\" (set in /verif/harness/.cargo/config.toml); no hook code has been added to /repo so far",
        "baseline_off_cmd": "cd /repo && cargo nextest run --workspace --no-fail-fast --offline || cargo test --workspace --no-fail-fast --offline",
        "source_commits": [],
        "add_only": True,
    },
    "engines": [
        {"name": "lean", "path": "/verif/lean", "serves_properties": sorted(PROPS), "kind_free_text": "Lean 4 model (Autd3/Model), helper lemmas (Autd3/Lemmas), property theorems (Autd3/Props), generated definitions (Autd3/Gen), line-protocol driver (Main.lean -> autd3model)"},
        {"name": "gen_lean.py", "path": "/verif/tools/gen_lean.py", "serves_properties": sorted(PROPS), "kind_free_text": "translator: Rust constants/layouts/tables -> Lean definitions, re-run on every check"},
        {"name": "vh", "path": "/verif/harness", "serves_properties": sorted(PROPS), "kind_free_text": "Rust correspondence harness + implementation oracles (path deps on /repo crates)"},
    ],
    "checks": checks,
    "notes": "Machine-checked proof in Lean 4 over an executable model, tied to /repo by a translator and a differential correspondence check; see DESIGN.md.",
    "not_applicable": [{"property_id": p, "reason": NOT_CLAIMED.get(p, "check not built yet (work in progress; see DESIGN.md section 9)")} for p in ids if p not in PROPS],
}
json.dump(m, open(os.path.join(VERIF, "MANIFEST.json"), "w"), indent=1)
print("claimed", len(checks), "not claimed", len(m["not_applicable"]))
